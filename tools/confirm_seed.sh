#!/bin/bash
# usage: tools/confirm_seed.sh <PROP> <A|B>
# confirms a seeded change delivered in /tmp/seed/<PROP>/SEED/<X> in the scratch worktree /tmp/seed/<PROP>:
#   pristine: demo passes; patched: builds, make check passes (19 tests), demo fails; reverted: demo passes
# and, if all hold, copies it to /verif/seeded/<PROP>-<X>/ with the confirmation log.
P=$1; X=$2; W=/tmp/seed/$P; S=$W/SEED/$X; L=$S/confirm.log
cd $W || exit 2
git checkout -q -- . ; : > $L
say() { echo "$@" | tee -a $L; }
make -j8 >>$L 2>&1 || { say "pristine build failed"; exit 2; }
sh $S/run_demo.sh $W >>$L 2>&1; d0=$?; say "demo on pristine tree: exit $d0"
git apply $S/patch.diff || { say "patch does not apply"; exit 2; }
make -j8 >>$L 2>&1; b=$?; say "build with patch: exit $b"
make check >$S/check.confirm.log 2>&1; c=$?
npass=$(grep -E "^PASS:" $S/check.confirm.log | wc -l); nfail=$(grep -E "^(FAIL|ERROR):" $S/check.confirm.log | wc -l)
say "make check with patch: exit $c, PASS lines $npass, FAIL/ERROR lines $nfail"
sh $S/run_demo.sh $W >>$L 2>&1; d1=$?; say "demo on patched tree: exit $d1"
git checkout -q -- . ; make -j8 >>$L 2>&1
sh $S/run_demo.sh $W >>$L 2>&1; d2=$?; say "demo after revert: exit $d2"
if [ $d0 = 0 ] && [ $b = 0 ] && [ $c = 0 ] && [ $npass = 19 ] && [ $nfail = 0 ] && [ $d1 != 0 ] && [ $d2 = 0 ]; then
  D=/verif/seeded/$P-$X; mkdir -p $D
  cp $S/patch.diff $S/demo.c $S/run_demo.sh $D/; cp $L $D/confirm.log
  python3 - $S/meta.json $D/meta.json $P <<'PY'
import json,sys
m=json.load(open(sys.argv[1])); m["property"]=sys.argv[3]
m["confirmed_by_me"]={"scratch_worktree":"/tmp/seed/"+sys.argv[3],"sequence":"pristine build; demo exit 0; git apply patch.diff; make; make check 19/19 PASS; demo exit != 0; git checkout; make; demo exit 0","log":"confirm.log"}
json.dump(m,open(sys.argv[2],"w"),indent=1)
PY
  say "CONFIRMED -> $D"
else
  say "NOT CONFIRMED"
fi
