#!/bin/bash
# usage: tools/try_regress.sh <regress/unfix-*.diff> <PROP> [check args]
# runs ./check <PROP> against a scratch worktree of /repo HEAD with the fix reverted (never touches /repo)
D=$1; P=$2; shift 2
W=$(mktemp -d /tmp/regrun.XXXXXX); rmdir $W
git -C /repo worktree add --detach -f $W HEAD >/dev/null 2>&1 || exit 3
git -C $W apply $D || { echo "patch does not apply"; git -C /repo worktree remove --force $W; exit 3; }
cd /verif && ZVBI_REPO=$W ./check $P --no-evidence "$@"; rc=$?
git -C /repo worktree remove --force $W
echo "REGRESS $D on $P: check exit=$rc"
exit $rc
