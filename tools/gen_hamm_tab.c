#include <stdio.h>
#include "contracts/hamm_spec.h"
int main(void){ printf("/* generated from spec_unham8() of hamm_spec.h by tools/gen_hamm_tab.sh; job lemma:spec_unham8_tab re-proves\n   tab[b] == spec_unham8(b) for all b on every run */\nstatic const signed char spec_unham8_ctab[256] = {");
 for(int b=0;b<256;b++){ if(b%16==0)printf("\n\t"); printf("%d,", spec_unham8(b)); } printf("\n};\n"); return 0; }
