#!/bin/bash
# usage: tools/try_seed.sh <seed dir name under /verif/seeded> <PROP> [check args]
# runs ./check <PROP> against a scratch worktree of /repo HEAD with the seeded patch applied (never touches /repo)
S=$1; P=$2; shift 2
W=$(mktemp -d /tmp/seedrun.XXXXXX); rmdir $W
git -C /repo worktree add --detach -f $W HEAD >/dev/null 2>&1 || exit 3
cp /repo/config.h $W/ 2>/dev/null
git -C $W apply /verif/seeded/$S/patch.diff || { echo "patch does not apply"; git -C /repo worktree remove --force $W; exit 3; }
cd /verif && ZVBI_REPO=$W ./check $P --no-evidence "$@"; rc=$?
git -C /repo worktree remove --force $W
echo "SEED $S on $P: check exit=$rc"
exit $rc
