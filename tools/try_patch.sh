#!/bin/bash
# usage: tools/try_patch.sh <patch.diff> <PROP> [check args...]
# applies a patch to /repo, runs ./check <PROP> (no evidence written), reverts the patch
p=$1; shift
git -C /repo diff --quiet || { echo "/repo not clean"; exit 3; }
git -C /repo apply "$p" || { echo "patch does not apply"; exit 3; }
cd /verif && ./check "$@" --no-evidence; rc=$?
git -C /repo checkout -- .
echo "check exit=$rc"
exit $rc
