/* Contract of the WSS 625 decoder (src/wss.c), property C13.  From the
 * property statement and EN 300 294 (group 1: aspect ratio b0..b2 with odd
 * parity bit b3; group 2: film bit b4; group 3: b9,b10 subtitles in/out of
 * the active image), and libzvbi's documented vbi_aspect_ratio:
 * first/last line of the active picture on a 576 line (23..310 per field)
 * raster, for full format, letterbox 14:9 (504 lines) and 16:9 (430 lines)
 * positioned at the centre or top; ratio 3/4 for anamorphic 16:9 only.
 */
#ifndef VERIF_CONTRACTS_WSS_H
#define VERIF_CONTRACTS_WSS_H
#include "shim/verif.h"

struct spec_aspect { int first_line, last_line; int anamorphic; int film; int subt; };

static inline int spec_wss_parity_ok (unsigned b0)
{ return ((b0 ^ (b0 >> 1) ^ (b0 >> 2) ^ (b0 >> 3)) & 1u) == 1u; }

static inline void spec_wss_decode (struct spec_aspect *a, unsigned b0, unsigned b1)
{
	/* EN 300 294 table 1, code b0 b1 b2 (b0 first transmitted = lsb) */
	static const struct { int lines, top; } fmt[8] = {
		{ 576, 1 },	/* 000 full format 4:3 */
		{ 504, 0 },	/* 100 box 14:9 centre */
		{ 504, 1 },	/* 010 box 14:9 top */
		{ 430, 0 },	/* 110 box 16:9 centre */
		{ 430, 1 },	/* 001 box 16:9 top */
		{ 430, 0 },	/* 101 box > 16:9 centre */
		{ 576, 1 },	/* 011 full format 4:3 shoot and protect 14:9 */
		{ 576, 1 },	/* 111 full format 16:9 anamorphic */
	};
	int h = fmt[b0 & 7].lines / 2;	/* lines per field */
	a->first_line = fmt[b0 & 7].top ? 23 : 23 + (288 - h) / 2;
	a->last_line = a->first_line + h - 1;
	a->anamorphic = (b0 & 7) == 7;
	a->film = (b0 >> 4) & 1;
	a->subt = (b1 >> 1) & 3;	/* b9 in active image, b10 out of active image */
}
#endif
