/* Specification encoders for the Teletext error protection codes, written
 * from EN 300 706 section 8.1 - 8.3 (not from the library's tables):
 *
 *  odd parity      : bit 8 makes the number of set bits odd
 *  Hamming 8/4     : byte bits b1..b8 (b1 = lsb, transmitted first) =
 *                    P1 D1 P2 D2 P3 D3 P4 D4 with
 *                    P1 = 1^D1^D3^D4, P2 = 1^D1^D2^D4, P3 = 1^D1^D2^D3,
 *                    P4 = 1^P1^D1^P2^D2^P3^D3^D4
 *  Hamming 24/18   : bit positions 1..24 = P1 P2 D1 P3 D2 D3 D4 P4 D5..D11 P5
 *                    D12..D18 P6; Pk (k=1..5) gives odd parity over the
 *                    positions whose index has bit (k-1) set; P6 gives odd
 *                    parity over all 24 bits
 */
#ifndef VERIF_HAMM_SPEC_H
#define VERIF_HAMM_SPEC_H
#include <stdint.h>

static inline unsigned spec_bit (unsigned v, unsigned i) { return (v >> i) & 1u; }

static inline unsigned spec_par8 (unsigned c7)
{
	unsigned i, ones = 0;
	for (i = 0; i < 7; ++i) ones += spec_bit (c7, i);
	return (c7 & 0x7Fu) | ((ones & 1u) ? 0u : 0x80u);
}

static inline unsigned spec_ham8 (unsigned d)
{
	unsigned D1 = spec_bit (d, 0), D2 = spec_bit (d, 1),
		 D3 = spec_bit (d, 2), D4 = spec_bit (d, 3);
	unsigned P1 = 1u ^ D1 ^ D3 ^ D4;
	unsigned P2 = 1u ^ D1 ^ D2 ^ D4;
	unsigned P3 = 1u ^ D1 ^ D2 ^ D3;
	unsigned P4 = 1u ^ P1 ^ D1 ^ P2 ^ D2 ^ P3 ^ D3 ^ D4;
	return P1 | (D1 << 1) | (P2 << 2) | (D2 << 3)
		| (P3 << 4) | (D3 << 5) | (P4 << 6) | (D4 << 7);
}

/* 18 data bits -> 24 bit code word, bit (pos-1) of the result = position pos;
   byte 0 = positions 1..8 (first transmitted) */
static inline uint32_t spec_ham24 (uint32_t d)
{
	static const unsigned char dpos[18] =
		{ 3, 5, 6, 7, 9, 10, 11, 12, 13, 14, 15, 17, 18, 19, 20, 21, 22, 23 };
	uint32_t w = 0;
	unsigned i, k, pos;
	for (i = 0; i < 18; ++i)
		w |= (uint32_t) spec_bit (d, i) << (dpos[i] - 1);
	for (k = 0; k < 5; ++k) {
		unsigned par = 1;
		for (pos = 1; pos <= 23; ++pos)
			if ((pos >> k) & 1u)
				par ^= spec_bit (w, pos - 1);
		w |= (uint32_t) par << ((1u << k) - 1);
	}
	{
		unsigned par = 1;
		for (pos = 1; pos <= 23; ++pos)
			par ^= spec_bit (w, pos - 1);
		w |= (uint32_t) par << 23;
	}
	return w;
}

/* Hamming 8/4 decoder specification: the data nibble of the unique code word
   within Hamming distance <= 1 of b, or -1 (distance 2: uncorrectable) */
static inline int spec_unham8 (unsigned b)
{
	unsigned d, i, x, n;
	int r = -1;
	for (d = 0; d < 16; ++d) {
		x = (spec_ham8 (d) ^ b) & 0xFFu;
		n = 0;
		for (i = 0; i < 8; ++i) n += spec_bit (x, i);
		if (n <= 1) r = (int) d;
	}
	return r;
}

/* the same function through a constant table (generated from spec_unham8,
   and re-proved equal to it for all 256 bytes by job lemma:spec_unham8_tab):
   cheap when the specification decodes many bytes */

static inline void spec_hamm_init (void) { }
#ifndef SPEC_GEN_TAB
#include "contracts/hamm_spec_tab.h"
static inline int spec_unham8c (unsigned b) { return spec_unham8_ctab[b & 255u]; }
#endif

static inline unsigned spec_rev8 (unsigned c)
{
	unsigned i, r = 0;
	for (i = 0; i < 8; ++i) r |= spec_bit (c, i) << (7 - i);
	return r;
}
#endif
