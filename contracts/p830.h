/* Specification of Teletext packet 8/30 format 1 and 2 payloads (property
 * C12), written from EN 300 706 section 9.8.1 / 9.8.2 and EN 300 231
 * section 8.2.  buffer[0..41] are the 42 bytes following the framing code
 * (buffer[0..1] magazine/packet address, buffer[2] designation code).
 *
 * Format 1:  buffer[9..10]  Network Identification, 16 bits, msb transmitted
 *                           first (so bit 0 of buffer[9] is NI bit 15)
 *            buffer[11]     time offset: bit0 = 1, bits 1-5 = offset in half
 *                           hours, bit 6 = 1 for negative (west), bit 7 = 1
 *            buffer[12..14] MJD, five BCD digits, each incremented by 1
 *                           (buffer[12] low nibble = 10^4 digit)
 *            buffer[15..17] UTC hh mm ss, BCD, each digit incremented by 1
 * Format 2:  buffer[9..21]  13 Hamming 8/4 bytes; the four data bits of each
 *                           byte are transmitted lsb first while the PDC
 *                           fields are msb first, i.e. nibbles are bit
 *                           reversed.  After reversal, the nibble stream is
 *                             [LCI(2) LUF PRF] [PCS(2) MI res] [CNI15-12]
 *                             then the VPS arrangement of EN 300 231:
 *                             [CNI7-6 PIL19-14] [PIL13-6] [PIL5-0 CNI11-10]
 *                             [CNI9-8 CNI5-0] [PTY]
 */
#ifndef VERIF_CONTRACTS_P830_H
#define VERIF_CONTRACTS_P830_H
#include "shim/verif.h"
#include "contracts/hamm_spec.h"

struct spec_8301 {
	unsigned cni;			/* 16 bit */
	unsigned mjd_digit[5];		/* 10^4 .. 10^0, each 0..9 */
	unsigned h1, h0, m1, m0, s1, s0;	/* decimal digits of hh (0..23) mm ss (0..59) */
	unsigned lto_half_hours;	/* 0..31 */
	unsigned lto_negative;		/* 0/1 */
};

static inline void spec_enc_8301 (uint8_t b[42], const struct spec_8301 *v)
{
	unsigned i, hi = 0, lo = 0;
	for (i = 0; i < 8; ++i) {
		hi |= spec_bit (v->cni, 15 - i) << i;
		lo |= spec_bit (v->cni, 7 - i) << i;
	}
	b[9] = hi; b[10] = lo;
	b[11] = 0x81 | (v->lto_half_hours << 1) | (v->lto_negative << 6);
	b[12] = (b[12] & 0xF0) | (v->mjd_digit[0] + 1);
	b[13] = ((v->mjd_digit[1] + 1) << 4) | (v->mjd_digit[2] + 1);
	b[14] = ((v->mjd_digit[3] + 1) << 4) | (v->mjd_digit[4] + 1);
	b[15] = ((v->h1 + 1) << 4) | (v->h0 + 1);
	b[16] = ((v->m1 + 1) << 4) | (v->m0 + 1);
	b[17] = ((v->s1 + 1) << 4) | (v->s0 + 1);
}

#define SPEC_8301_VALID(v) \
	((v)->cni <= 0xFFFFu && (v)->mjd_digit[0] <= 9 && (v)->mjd_digit[1] <= 9 \
	 && (v)->mjd_digit[2] <= 9 && (v)->mjd_digit[3] <= 9 && (v)->mjd_digit[4] <= 9 \
	 && (v)->h1 <= 2 && (v)->h0 <= 9 && (v)->h1 * 10 + (v)->h0 <= 23 \
	 && (v)->m1 <= 5 && (v)->m0 <= 9 && (v)->s1 <= 5 && (v)->s0 <= 9 \
	 && (v)->lto_half_hours <= 31 && (v)->lto_negative <= 1)

/* a nibble of an "incremented BCD" field is valid iff it is 1..10 */
#define SPEC_NIB_OK(n) ((n) >= 1u && (n) <= 10u)

struct spec_8302 {
	unsigned lci, luf, prf, pcs, mi, res;	/* 2,1,1,2,1,1 bits */
	unsigned cni;				/* 16 bit */
	unsigned pil;				/* 20 bit */
	unsigned pty;				/* 8 bit */
};

#define SPEC_8302_VALID(v) \
	((v)->lci <= 3 && (v)->luf <= 1 && (v)->prf <= 1 && (v)->pcs <= 3 \
	 && (v)->mi <= 1 && (v)->res <= 1 && (v)->cni <= 0xFFFFu \
	 && (v)->pil <= 0xFFFFFu && (v)->pty <= 0xFFu)

static inline void spec_enc_8302 (uint8_t b[42], const struct spec_8302 *v)
{
	unsigned f[13], i;
	f[6] = ((v->lci << 2) | (v->luf << 1) | v->prf) << 4;
	f[7] = (v->pcs << 6) | (v->mi << 5) | (v->res << 4) | ((v->cni >> 12) & 15u);
	f[8] = (((v->cni >> 6) & 3u) << 6) | ((v->pil >> 14) & 0x3Fu);
	f[9] = (v->pil >> 6) & 0xFFu;
	f[10] = ((v->pil & 0x3Fu) << 2) | ((v->cni >> 10) & 3u);
	f[11] = (((v->cni >> 8) & 3u) << 6) | (v->cni & 0x3Fu);
	f[12] = v->pty;
	b[9] = spec_ham8 (spec_rev8 (f[6]) & 15u);
	for (i = 7; i <= 12; ++i) {
		unsigned r = spec_rev8 (f[i]);
		b[2 * i - 4] = spec_ham8 (r & 15u);
		b[2 * i - 3] = spec_ham8 (r >> 4);
	}
}
#endif
