/* contracts/bs.h -- C05: well-formedness of a configured bit slicer, i.e.
 * the fact that joins "vbi3_bit_slicer_set_params accepted these
 * parameters" (theorem T-B) with "the slicer functions read only
 * raw[0 .. samples_per_line * bytes_per_sample)" (theorem T-A).
 *
 * Derived from the read pattern of the slicer functions in
 * src/bit_slicer.c (CORE/CRI/PAYLOAD/SAMPLE macros and
 * low_pass_bit_slicer_Y8):
 *   - the CRI search looks at search position n = 0 .. cri_samples-1,
 *     reading samples n and n+1 (low pass: n .. n+16),
 *   - FRC and payload bit k = 0 .. nbits-1 is read at sample
 *     n + ((phase_shift + k*step) >> 8) and the following sample for the
 *     linear interpolation (low pass: n+1 + that, plus a 16 sample window),
 *   - sample s is the byte (two bytes for 15/16 bit RGB) at
 *     raw + skip + s * bytes_per_sample.
 * No quantifier, no call: plain C, also executable in the native replay.
 */
#ifndef VERIF_CONTRACTS_BS_H
#define VERIF_CONTRACTS_BS_H

#include "shim/verif.h"

/* number of FRC + payload bits sampled after the CRI */
#define BS_NBITS(bs) ((uint64_t)(bs)->frc_bits + \
	(((bs)->endian >= 2) ? (uint64_t)(bs)->payload : (uint64_t)(bs)->payload * 8))

/* distance in samples from the CRI position to the last sampling point */
#define BS_LAST(bs) ((BS_NBITS (bs) == 0) ? (uint64_t) 0 : \
	(((uint64_t)(bs)->phase_shift + (BS_NBITS (bs) - 1) * (uint64_t)(bs)->step) >> 8))

/* wf_bs (bs, spl, lowpass, gw): lowpass = the low pass slicer is selected,
   gw = bytes read per sample (1, or 2 for the 15/16 bit RGB formats).
   All arithmetic in 64 bits so that the predicate itself cannot wrap. */
#define WF_BS(bs, spl, lowpass, gw) ( \
	(bs)->bytes_per_sample >= 1 && (bs)->bytes_per_sample <= 4 \
	&& (bs)->cri_samples >= 1 \
	&& ((bs)->skip % (bs)->bytes_per_sample) + (uint64_t)(gw) <= (bs)->bytes_per_sample \
	&& (uint64_t)((bs)->skip / (bs)->bytes_per_sample) + (bs)->cri_samples \
	   + BS_LAST (bs) + ((lowpass) ? 15 : 0) <= (uint64_t)(spl) - 1 \
	&& (spl) >= 1 && (spl) <= 32767)
/* (spl <= 32767 is asserted by vbi3_bit_slicer_set_params; with it the main
   inequality bounds phase_shift + (nbits-1)*step by 2^23, so the 32 bit
   sampling position of the slicer functions cannot wrap around) */

/* bytes the slicer stores for the payload */
#define BS_OUT_BYTES(bs) (((bs)->endian >= 2) ? ((bs)->payload + 7) / 8 : (bs)->payload)


/* ---- legacy slicer (src/decoder.c: vbi_bit_slicer_init, bit_slicer_tmpl) ----
   same read pattern: search position n = 0 .. cri_bytes-1 reads samples n, n+1;
   bit k is read at n + ((phase_shift + k*step) >> 8) and the sample after it.
   bpp = bytes per sample (2 for the 15/16 bit formats), gw = bytes per read. */
#define LBS_NBITS(d) ((int64_t)(d)->frc_bits + (((d)->endian >= 2) ? (int64_t)(d)->payload : (int64_t)(d)->payload * 8))
#define LBS_LAST(d) ((LBS_NBITS (d) <= 0) ? (int64_t) 0 : \
	(((int64_t)(d)->phase_shift + (LBS_NBITS (d) - 1) * (int64_t)(d)->step) >> 8))
#define WF_LBS(d, raw_samples, bpp, gw) ( \
	(d)->cri_bytes == 0 /* never searches; a negative count wraps around in the unsigned loop counter */ \
	|| ((d)->cri_bytes > 0 && (d)->skip >= 0 && (d)->phase_shift >= 0 && (d)->step >= 0 && (d)->frc_bits >= 0 && (d)->payload >= 0 \
	    && (int64_t)(d)->skip + ((int64_t)(d)->cri_bytes + LBS_LAST (d)) * (bpp) + (gw) <= (int64_t)(raw_samples) * (bpp)))

#endif
