/* Contract of the IDL format A demultiplexer (src/idl_demux.c), property C15.
 * Written from the property statement and EN 300 708 section 6.5:
 *
 *   byte 0,1   packet address: data channel (magazine nibble), designation
 *              15 (packets 30/31), Hamming 8/4
 *   byte 2     FT format type, Hamming 8/4: bit0 = 0 format A, bit1 RI
 *              present, bit2 CI present, bit3 DL present
 *   byte 3     IAL: bits 0-2 number of service packet address nibbles
 *              (7 reserved), bit 3 "dependent"
 *   then       SPA nibbles (Hamming 8/4, least significant first), RI, CI, DL
 *              as announced, user data, and in bytes 40,41 the CRC
 *   CRC        generator x^16 + x^9 + x^7 + x^4 + 1 over everything after
 *              the RI byte, bits lsb first, remainder 0; without explicit CI
 *              the continuity indicator is what the remainder's two (equal)
 *              bytes are
 *   dummy byte after eight consecutive bytes 0x00 or eight bytes 0xFF
 *              (counted from the CI) the sender inserts one byte that is not
 *              user data (6.5.7.1)
 */
#ifndef VERIF_CONTRACTS_IDL_H
#define VERIF_CONTRACTS_IDL_H
#include "shim/verif.h"
#include "contracts/hamm_spec.h"

/* bitwise CRC-16 of EN 300 708, polynomial x^16+x^9+x^7+x^4+1, reflected */
static inline unsigned spec_idl_crc_step (unsigned crc, unsigned byte)
{
	unsigned k;
	for (k = 0; k < 8; ++k) {
		unsigned fb = (crc ^ (byte >> k)) & 1u;
		crc >>= 1;
		/* x^16 feedback into x^9, x^7, x^4, x^0 (bit 15-e holds x^e) */
		if (fb) crc ^= (1u << (15 - 9)) | (1u << (15 - 7)) | (1u << (15 - 4)) | (1u << 15);
	}
	return crc & 0xFFFFu;
}

static inline unsigned spec_idl_crc (const uint8_t *b, unsigned from, unsigned to)
{
	unsigned j, crc = 0;
	for (j = 0; j < 42; ++j)
		if (j >= from && j < to) crc = spec_idl_crc_step (crc, b[j]);
	return crc;
}

/* run of 0x00 / 0xFF bytes: length after seeing byte t */
#define SPEC_IDL_RUN(run, val, t) \
	((((t) == 0x00 || (t) == 0xFF)) ? (((run) > 0 && (t) == (val)) ? (run) + 1 : 1) : 0)

/* Receiver side of 6.5.7.1: user bytes of raw[0..n_raw) with the byte after
   each run of eight 0x00 / 0xFF (counted from the CI) removed.  *conforming
   is cleared if a byte in a dummy position is itself 0x00 or 0xFF -- no
   sender inserts such a dummy byte, the result is then unspecified. */
static inline unsigned
spec_idl_undummy (uint8_t out[36], const uint8_t raw[36], unsigned n_raw, unsigned ci, int *conforming)
{
	unsigned k, n = 0, run, val = ci;
	run = (ci == 0x00 || ci == 0xFF) ? 1 : 0;
	*conforming = 1;
	for (k = 0; k < 36; ++k) {
		unsigned t;
		if (k >= n_raw) break;
		t = raw[k];
		if (run == 8) {		/* dummy byte */
			if (t == 0x00 || t == 0xFF) *conforming = 0;
			run = 0;
			continue;
		}
		out[n++] = t;
		run = SPEC_IDL_RUN (run, val, t);
		val = t;
	}
	return n;
}

/* Sender side: raw bytes for the user bytes d[0..n) */
static inline unsigned
spec_idl_insert_dummy (uint8_t raw[48], const uint8_t d[36], unsigned n, unsigned ci, unsigned dummy)
{
	unsigned k, pos = 0, run, val = ci;
	run = (ci == 0x00 || ci == 0xFF) ? 1 : 0;
	for (k = 0; k < 36; ++k) {
		if (k >= n) break;
		raw[pos++] = d[k];
		run = SPEC_IDL_RUN (run, val, d[k]);
		val = d[k];
		if (run == 8) { raw[pos++] = dummy; run = 0; }
	}
	return pos;
}

#define SPEC_IDL_DATA_LOST 1u
#define SPEC_IDL_DEPENDENT 8u
#endif
