/* Contract of the Page Format - Clear demultiplexer (src/pfc_demux.c),
 * property C15.  Written from the property statement and EN 300 708
 * section 4.3:
 *
 *   a PFC page is a Teletext page whose packets 1..n carry, after the two
 *   address bytes, a block pointer BP (Hamming 8/4; value 0..12 = offset / 3
 *   of the first block separator in the 39 following bytes, 13 = no block
 *   starts in this packet) and 39 data bytes.  The data area is a byte
 *   stream: block separator BS (Hamming coded 0xC), structure header SH
 *   (four Hamming 8/4 nibbles, lsb first: 5 bit application id, 11 bit block
 *   length), the block bytes, then filler bytes (Hamming coded 0x3) up to
 *   the next BS.  Blocks continue across packets and pages.
 *
 * The specification receiver below is byte-wise: one state transition per
 * data byte.  It keeps, instead of the 2 kB block, the structure header
 * bytes and ONE ghost byte of the block (index g), which is enough to state
 * "block[g] is the byte the sender put there" for an arbitrary g.
 */
#ifndef VERIF_CONTRACTS_PFC_H
#define VERIF_CONTRACTS_PFC_H
#include "shim/verif.h"
#include "contracts/hamm_spec.h"

#define SPEC_PFC_BS 0x0C
#define SPEC_PFC_FILLER 0x03
#define SPEC_PFC_NO_APP 0xFFFFFFFFu

struct spec_pfc {
	unsigned col;		/* next packet byte the receiver looks at */
	unsigned bi, left;	/* bytes stored / still expected of SH or block */
	unsigned app;		/* SPEC_PFC_NO_APP: reading the structure header */
	unsigned size;		/* block length announced by the SH */
	uint8_t sh[4];
	unsigned g;		/* ghost index into the block */
	uint8_t blk_g;		/* byte at index g */
	/* outputs of one packet */
	int desync;		/* receiver gave up: state reset, FALSE returned */
	int stopped;		/* rest of the packet carries nothing for us */
	unsigned delivered;	/* blocks completed in this packet */
	unsigned d1_app, d1_size; uint8_t d1_blk_g;	/* the first of them */
};

/* representation invariant */
#define WF_PFC(bi, left, app, size) \
	((bi) <= 2048 && (left) <= 2048 && WF_PFC_1 (bi, left, app, size))
#define WF_PFC_1(bi, left, app, size) \
	((left) == 0 ? ((app) == SPEC_PFC_NO_APP || ((app) <= 31 && (size) <= 2047)) \
	 : (app) == SPEC_PFC_NO_APP ? ((bi) + (left) == 4) \
	 : ((app) <= 31 && (size) <= 2047 && (bi) + (left) == (size)))

static inline void spec_pfc_reset (struct spec_pfc *s)
{ s->bi = 0; s->left = 0; s->app = SPEC_PFC_NO_APP; s->desync = 1; }

static inline void spec_pfc_begin (struct spec_pfc *s, const uint8_t b[42])
{
	int bp = spec_unham8c (b[2]);
	s->col = 3; s->desync = 0; s->stopped = 0; s->delivered = 0;
	if (bp < 0 || bp > 13) spec_pfc_reset (s);
}

/* one data byte.  cb_ok[k]: what the application answers to the k-th
   delivery of the packet */
static inline void
spec_pfc_byte (struct spec_pfc *s, const uint8_t b[42], const int cb_ok[8])
{
	unsigned col = s->col;
	if (s->left == 0 && col == 3) {	/* nothing in progress: BP says where a block starts */
		int bp = spec_unham8c (b[2]);
		if (bp == 13) { s->stopped = 1; return; }
		col = 3 + 3 * (unsigned) bp;
		s->col = col + 1;
		if (spec_unham8c (b[col]) != SPEC_PFC_BS) { spec_pfc_reset (s); return; }
		s->bi = 0; s->left = 4; s->app = SPEC_PFC_NO_APP;
		return;
	}
	s->col = col + 1;
	if (s->left > 0) {
		if (s->app == SPEC_PFC_NO_APP) s->sh[s->bi & 3] = b[col];
		else if (s->bi == s->g) s->blk_g = b[col];
		++s->bi; --s->left;
		if (s->left > 0) return;
		if (s->app == SPEC_PFC_NO_APP) {
			int n0 = spec_unham8c (s->sh[0]), n1 = spec_unham8c (s->sh[1]),
			    n2 = spec_unham8c (s->sh[2]), n3 = spec_unham8c (s->sh[3]);
			unsigned sh;
			if (n0 < 0 || n1 < 0 || n2 < 0 || n3 < 0) { spec_pfc_reset (s); return; }
			sh = (unsigned) n0 | ((unsigned) n1 << 4) | ((unsigned) n2 << 8) | ((unsigned) n3 << 12);
			s->app = sh & 31; s->size = sh >> 5;
			s->bi = 0; s->left = s->size;
			/* an empty block is complete at once and carries nothing */
		} else {
			if (s->delivered == 0) { s->d1_app = s->app; s->d1_size = s->size; s->d1_blk_g = s->blk_g; }
			if (!cb_ok[s->delivered < 8 ? s->delivered : 7]) { ++s->delivered; spec_pfc_reset (s); return; }
			++s->delivered;
		}
	} else {
		int t = spec_unham8c (b[col]);
		if (t == SPEC_PFC_FILLER) return;
		if (t != SPEC_PFC_BS) { spec_pfc_reset (s); return; }
		s->bi = 0; s->left = 4; s->app = SPEC_PFC_NO_APP;
	}
}

/* bring the specification receiver to column upto (<= 42) */
static inline void
spec_pfc_advance (struct spec_pfc *s, const uint8_t b[42], const int cb_ok[8], unsigned upto)
{
	unsigned k;
	for (k = 0; k < 39; ++k) {
		if (s->desync || s->stopped || s->col >= upto) break;
		spec_pfc_byte (s, b, cb_ok);
	}
}
#endif
