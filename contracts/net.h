/* Contracts for the network / programme identification paths of
 * src/packet.c (vbi_decode_vps, parse_bsd), property C13, from the property
 * statement: an identifier is announced only after it has been received
 * again unchanged, not again while the same value keeps arriving; one
 * deviating reception raises no network change and clears nothing.
 *
 * station_lookup() is replaced by an assumed contract: a pure function of
 * (type, cni) -- an arbitrary but fixed table, modelled by a ghost array.
 */
#ifndef VERIF_CONTRACTS_NET_H
#define VERIF_CONTRACTS_NET_H
#include "shim/verif.h"

/* ghost: the CNI table as an arbitrary function cni -> network id.  A
   harness looks up at most two different identifiers, so "value v1 at key
   k, v2 elsewhere" with arbitrary k, v1, v2 ranges over every function
   restricted to those two points. */
static int ghost_k; static unsigned ghost_v1, ghost_v2;
static const char ghost_name[] = "Ghost TV";
#define GHOST_ID(type, cni) (((cni) == 0) ? 0u : ((int) (cni) == ghost_k) ? ghost_v1 : ghost_v2)
#endif
