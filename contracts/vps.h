/* Contracts for src/vps.c (property C12).
 *
 * Specification functions are written from ETS 300 231 / EN 300 468 bit
 * layouts and from the statement of C12, not from the code:
 *
 *   VPS line, bytes 3..15 of the line = buffer[0..12]:
 *     buffer[2]  bits 7-6  PCS audio;  bit 4: ARD/ZDF distinction for 0xDC3
 *     buffer[8]  bits 7-6  CNI bits 7-6;   bits 5-0  PIL bits 19-14
 *     buffer[9]            PIL bits 13-6
 *     buffer[10] bits 7-2  PIL bits 5-0;   bits 1-0  CNI bits 11-10
 *     buffer[11] bits 7-6  CNI bits 9-8;   bits 5-0  CNI bits 5-0
 *     buffer[12]           PTY
 */
#ifndef VERIF_CONTRACTS_VPS_H
#define VERIF_CONTRACTS_VPS_H

#include "shim/verif.h"
#include "src/vps.h"

/* raw 12-bit CNI field of a VPS buffer */
#define SPEC_VPS_CNI_RAW(b) \
	((((unsigned)(b)[10] & 0x03u) << 10) | (((unsigned)(b)[11] & 0xC0u) << 2) \
	 | ((unsigned)(b)[8] & 0xC0u) | ((unsigned)(b)[11] & 0x3Fu))
/* decoded CNI: 0xDC3 is the one documented exception */
#define SPEC_VPS_CNI(b) \
	(SPEC_VPS_CNI_RAW (b) == 0x0DC3u \
	 ? (((b)[2] & 0x10) ? 0x0DC1u : 0x0DC2u) : SPEC_VPS_CNI_RAW (b))
#define SPEC_VPS_PIL(b) \
	((((unsigned)(b)[8] & 0x3Fu) << 14) | ((unsigned)(b)[9] << 6) \
	 | ((unsigned)(b)[10] >> 2))
#define SPEC_VPS_AUDIO(b) ((unsigned)(b)[2] >> 6)
#define SPEC_VPS_PTY(b) ((unsigned)(b)[12])

/* bit masks of the fields each encoder owns, per buffer byte */
static const uint8_t spec_vps_cni_mask[13] =
	{ 0,0,0,0,0,0,0,0, 0xC0, 0, 0x03, 0xFF, 0 };
static const uint8_t spec_vps_pdc_mask[13] =
	{ 0,0,0xC0,0,0,0,0,0, 0xFF, 0xFF, 0xFF, 0xFF, 0xFF };

#define SPEC_DVB_PIL(b) \
	((((unsigned)(b)[2] & 0x0Fu) << 16) | ((unsigned)(b)[3] << 8) | (unsigned)(b)[4])

/* pid fields a VPS line carries; everything else in *pid is cleared */
#define POST_decode_vps_pdc(pid, b) \
	((pid)->channel == VBI_PID_CHANNEL_VPS \
	 && (pid)->cni_type == VBI_CNI_TYPE_VPS \
	 && (pid)->cni == SPEC_VPS_CNI (b) \
	 && (pid)->pil == SPEC_VPS_PIL (b) \
	 && (pid)->mi == 1 && (pid)->luf == 0 && (pid)->prf == 0 \
	 && (unsigned)(pid)->pcs_audio == SPEC_VPS_AUDIO (b) \
	 && (pid)->pty == SPEC_VPS_PTY (b) \
	 && (pid)->tape_delayed == 0)

#define PRE_OK_encode_vps_pdc(pid) \
	((unsigned)(pid)->pty <= 0xFFu && (unsigned)(pid)->pcs_audio <= 3u \
	 && (pid)->pil <= 0xFFFFFu && (pid)->cni <= 0x0FFFu)

#ifndef ZVBI_REPLAY
/* ---- function contracts, attached to re-declarations; CBMC merges them
 *      with the definitions in the real src/vps.c included afterwards ---- */

vbi_bool
vbi_decode_vps_cni (unsigned int *cni, const uint8_t buffer[13])
__CPROVER_requires (__CPROVER_is_fresh (cni, sizeof (*cni)))
__CPROVER_requires (__CPROVER_is_fresh (buffer, 13))
__CPROVER_assigns (*cni)
__CPROVER_ensures (__CPROVER_return_value == 1)
__CPROVER_ensures (*cni == SPEC_VPS_CNI (buffer));

vbi_bool
vbi_encode_vps_cni (uint8_t buffer[13], unsigned int cni)
__CPROVER_requires (__CPROVER_is_fresh (buffer, 13))
__CPROVER_assigns (buffer[8], buffer[10], buffer[11])
__CPROVER_ensures (__CPROVER_return_value == (cni <= 0x0FFFu))
/* refused => untouched */
__CPROVER_ensures (cni > 0x0FFFu ==>
	(buffer[8] == __CPROVER_old (buffer[8])
	 && buffer[10] == __CPROVER_old (buffer[10])
	 && buffer[11] == __CPROVER_old (buffer[11])))
/* accepted => the field holds cni, every other bit is preserved */
__CPROVER_ensures (cni <= 0x0FFFu ==>
	(SPEC_VPS_CNI_RAW (buffer) == cni
	 && (buffer[8] & 0x3F) == (__CPROVER_old (buffer[8]) & 0x3F)
	 && (buffer[10] & 0xFC) == (__CPROVER_old (buffer[10]) & 0xFC)));

vbi_bool
vbi_decode_vps_pdc (vbi_program_id *pid, const uint8_t buffer[13])
__CPROVER_requires (__CPROVER_is_fresh (pid, sizeof (*pid)))
__CPROVER_requires (__CPROVER_is_fresh (buffer, 13))
__CPROVER_assigns (*pid)
__CPROVER_ensures (__CPROVER_return_value == 1)
__CPROVER_ensures (POST_decode_vps_pdc (pid, buffer));

vbi_bool
vbi_encode_vps_pdc (uint8_t buffer[13], const vbi_program_id *pid)
__CPROVER_requires (__CPROVER_is_fresh (buffer, 13))
__CPROVER_requires (__CPROVER_is_fresh (pid, sizeof (*pid)))
__CPROVER_assigns (buffer[2], buffer[8], buffer[9], buffer[10], buffer[11], buffer[12])
__CPROVER_ensures (__CPROVER_return_value == PRE_OK_encode_vps_pdc (pid))
__CPROVER_ensures (!PRE_OK_encode_vps_pdc (pid) ==>
	(buffer[2] == __CPROVER_old (buffer[2])
	 && buffer[8] == __CPROVER_old (buffer[8])
	 && buffer[9] == __CPROVER_old (buffer[9])
	 && buffer[10] == __CPROVER_old (buffer[10])
	 && buffer[11] == __CPROVER_old (buffer[11])
	 && buffer[12] == __CPROVER_old (buffer[12])))
__CPROVER_ensures (PRE_OK_encode_vps_pdc (pid) ==>
	(SPEC_VPS_CNI_RAW (buffer) == pid->cni
	 && SPEC_VPS_PIL (buffer) == pid->pil
	 && SPEC_VPS_AUDIO (buffer) == (unsigned) pid->pcs_audio
	 && SPEC_VPS_PTY (buffer) == pid->pty
	 && (buffer[2] & 0x3F) == (__CPROVER_old (buffer[2]) & 0x3F)));

vbi_bool
vbi_decode_dvb_pdc_descriptor (vbi_program_id *pid, const uint8_t buffer[5])
__CPROVER_requires (__CPROVER_is_fresh (pid, sizeof (*pid)))
__CPROVER_requires (__CPROVER_is_fresh (buffer, 5))
__CPROVER_assigns (*pid)
__CPROVER_ensures (__CPROVER_return_value
	== (buffer[0] == 0x69 && buffer[1] == 3))
/* refused => *pid untouched */
#define PID_UNCHANGED(pid) \
	((pid)->channel == __CPROVER_old ((pid)->channel) \
	 && (pid)->cni_type == __CPROVER_old ((pid)->cni_type) \
	 && (pid)->cni == __CPROVER_old ((pid)->cni) \
	 && (pid)->pil == __CPROVER_old ((pid)->pil) \
	 && (pid)->luf == __CPROVER_old ((pid)->luf) \
	 && (pid)->mi == __CPROVER_old ((pid)->mi) \
	 && (pid)->prf == __CPROVER_old ((pid)->prf) \
	 && (pid)->pcs_audio == __CPROVER_old ((pid)->pcs_audio) \
	 && (pid)->pty == __CPROVER_old ((pid)->pty) \
	 && (pid)->tape_delayed == __CPROVER_old ((pid)->tape_delayed) \
	 && (pid)->_reserved2[0] == __CPROVER_old ((pid)->_reserved2[0]) \
	 && (pid)->_reserved2[1] == __CPROVER_old ((pid)->_reserved2[1]) \
	 && (pid)->_reserved3[0] == __CPROVER_old ((pid)->_reserved3[0]) \
	 && (pid)->_reserved3[1] == __CPROVER_old ((pid)->_reserved3[1]) \
	 && (pid)->_reserved3[2] == __CPROVER_old ((pid)->_reserved3[2]) \
	 && (pid)->_reserved3[3] == __CPROVER_old ((pid)->_reserved3[3]))
__CPROVER_ensures (!__CPROVER_return_value ==> PID_UNCHANGED (pid))
__CPROVER_ensures (__CPROVER_return_value ==>
	(pid->channel == VBI_PID_CHANNEL_PDC_DESCRIPTOR
	 && pid->pil == SPEC_DVB_PIL (buffer)
	 && pid->mi == 1 && pid->cni == 0 && pid->luf == 0 && pid->prf == 0
	 && pid->pty == 0 && (unsigned) pid->pcs_audio == 0));

vbi_bool
vbi_encode_dvb_pdc_descriptor (uint8_t buffer[5], const vbi_program_id *pid)
__CPROVER_requires (__CPROVER_is_fresh (buffer, 5))
__CPROVER_requires (__CPROVER_is_fresh (pid, sizeof (*pid)))
__CPROVER_assigns (__CPROVER_object_whole (buffer))
__CPROVER_ensures (__CPROVER_return_value == (pid->pil <= 0xFFFFFu))
__CPROVER_ensures (pid->pil > 0xFFFFFu ==>
	(buffer[0] == __CPROVER_old (buffer[0])
	 && buffer[1] == __CPROVER_old (buffer[1])
	 && buffer[2] == __CPROVER_old (buffer[2])
	 && buffer[3] == __CPROVER_old (buffer[3])
	 && buffer[4] == __CPROVER_old (buffer[4])))
__CPROVER_ensures (pid->pil <= 0xFFFFFu ==>
	(buffer[0] == 0x69 && buffer[1] == 3
	 && (buffer[2] & 0xF0) == 0xF0
	 && SPEC_DVB_PIL (buffer) == pid->pil));

#endif /* !ZVBI_REPLAY */
#endif
