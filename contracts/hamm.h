/* Contracts for src/hamm.c / src/hamm.h (properties C03, C01). */
#ifndef VERIF_CONTRACTS_HAMM_H
#define VERIF_CONTRACTS_HAMM_H
#include "shim/verif.h"
#include "contracts/hamm_spec.h"
#include "src/hamm.h"

#define HAMM_MAX_N 4096u

#ifndef ZVBI_REPLAY
void
vbi_par (uint8_t *p, unsigned int n)
__CPROVER_requires (n <= HAMM_MAX_N && __CPROVER_is_fresh (p, n))
__CPROVER_assigns (__CPROVER_object_whole (p));

int
vbi_unpar (uint8_t *p, unsigned int n)
__CPROVER_requires (n <= HAMM_MAX_N && __CPROVER_is_fresh (p, n))
__CPROVER_assigns (__CPROVER_object_whole (p));
#endif
#endif
