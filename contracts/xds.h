/* Contract of the XDS demultiplexer (src/xds_demux.c), property C09 (and the
 * memory-safety part of C01).  The specification is taken from the property
 * statement and EIA-608 section 9 (XDS packet structure):
 *
 *   start pair     c1 = 0x01,0x03..0x0D (odd): class = (c1-1)/2, c2 = type
 *   continue pair  c1 = 0x02..0x0E (even): resumes the packet class/type
 *   contents       pairs 0x20..0x7F; a trailing 0x00 is padding, not payload
 *   end pair       c1 = 0x0F, c2 = checksum: the 7-bit sum of start pair,
 *                  all content bytes and the end pair is zero
 *   1..32 payload bytes; anything else is not a packet and never delivered;
 *   pairs 0x10..0x1F (caption) suspend the current packet, 0x00 is filler.
 */
#ifndef VERIF_CONTRACTS_XDS_H
#define VERIF_CONTRACTS_XDS_H
#include "shim/verif.h"
#include "contracts/hamm_spec.h"

#define XDS_SPEC_CLASSES 7u		/* current .. undefined/private: have a slot */
#define XDS_SPEC_REQUIRED_CLASSES 4u	/* current, future, channel, misc: must be delivered */
#define XDS_SPEC_SLOTS 0x18u
#define XDS_SPEC_MAX_PAYLOAD 32u

static inline int spec_unpar8 (unsigned b)
{ return (spec_par8 (b & 127u) == (b & 255u)) ? (int) (b & 127u) : -1; }

/* slot index of a type code, or -1 if the demultiplexer has no slot */
static inline int spec_xds_idx (unsigned type)
{
	if (type < XDS_SPEC_SLOTS) return (int) type;
	if (type >= 0x40u && type < 0x40u + 8u) return (int) (type - 0x30u);
	return -1;
}
#define SPEC_XDS_IS_HEADER(c1) ((c1) >= 0x01 && (c1) <= 0x0E)
#define SPEC_XDS_CLASS(c1) ((unsigned) (((c1) - 1) >> 1))

/* representation invariant of one sub-packet slot */
#define WF_XDS_SLOT(count) ((count) == 0 || ((count) >= 2 && (count) <= 2 + (int) XDS_SPEC_MAX_PAYLOAD))
#endif
