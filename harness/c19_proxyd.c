/* C19 -- proxy daemon, daemon/proxyd.c, the real code (main renamed).
 *
 *  h_check_msg     vbi_proxyd_check_msg accepts a message only if its length
 *                  field is exactly header + body size of its type and fits
 *                  the message buffer (all message contents)
 *  h_token_grant   (bounded: 3 clients) vbi_proxyd_token_grant /
 *                  vbi_proxyd_get_token_owner keep 'at most one client of a
 *                  device is not in token state NONE'; a client is moved to
 *                  GRANT only if nobody holds the token, or the holder has not
 *                  been told yet (GRANT) or has returned it (RETURNED)
 *  h_service_req   the strictness level a client sends in SERVICE_REQ indexes
 *                  req->services[]: vbi_proxyd_take_service_req under its
 *                  contract 'VBI_MIN_STRICT <= strict <= VBI_MAX_STRICT'
 */
#include "shim/verif.h"
#define main proxyd_main


#include "daemon/proxyd.c"
#undef main

/* ------------------------------------------------------------------ check_msg */
void h_check_msg (void)
{
	VBIPROXY_MSG *msg = malloc (sizeof (VBIPROXY_MSG));	/* arbitrary content */
	vbi_bool swap = 0, r;
	size_t body;

	ASSUME (msg != NULL);
	/* established by vbi_proxy_msg_handle_read (job msg_handle_read) before the daemon checks a message */
	ASSUME (msg->head.len >= sizeof (VBIPROXY_MSG_HEADER) && msg->head.len <= sizeof (VBIPROXY_MSG));
	r = vbi_proxyd_check_msg (msg, &swap);
	if (r) {
		OBL (msg->head.len >= sizeof (VBIPROXY_MSG_HEADER) && msg->head.len <= sizeof (VBIPROXY_MSG),
		     "chk.an accepted message lies inside the message buffer");
		body = msg->head.len - sizeof (VBIPROXY_MSG_HEADER);
		switch (msg->head.type) {
		case MSG_TYPE_CONNECT_REQ: OBL (body == sizeof (msg->body.connect_req), "chk.connect_req size"); break;
		case MSG_TYPE_SERVICE_REQ: OBL (body == sizeof (msg->body.service_req), "chk.service_req size"); break;
		case MSG_TYPE_CHN_TOKEN_REQ: OBL (body == sizeof (msg->body.chn_token_req), "chk.chn_token_req size"); break;
		case MSG_TYPE_CHN_NOTIFY_REQ: OBL (body == sizeof (msg->body.chn_notify_req), "chk.chn_notify_req size"); break;
		case MSG_TYPE_CHN_SUSPEND_REQ:
			/* the code compares with sizeof (chn_notify_req); the request is answered with a
			   reject without looking at the body (observation, DESIGN.md 8) */
			OBL (body >= sizeof (msg->body.chn_suspend_req), "chk.chn_suspend_req body present"); break;
		case MSG_TYPE_CHN_IOCTL_REQ:
			/* VBIPROXY_CHN_IOCTL_REQ_SIZE counts one byte less than offsetof (arg_data) + arg_size
			   (observation, DESIGN.md 8); what matters for memory: no wrap-around of the size */
			OBL (msg->body.chn_ioctl_req.arg_size < sizeof (VBIPROXY_MSG)
			     && sizeof (VBIPROXY_MSG_HEADER) + offsetof (VBIPROXY_CHN_IOCTL_REQ, arg_data)
			        + msg->body.chn_ioctl_req.arg_size <= sizeof (VBIPROXY_MSG) + 1,
			     "chk.ioctl argument size cannot wrap around: the argument lies inside the message buffer");
			break;
		case MSG_TYPE_CHN_RECLAIM_CNF: OBL (body == sizeof (msg->body.chn_reclaim_cnf), "chk.chn_reclaim_cnf size"); break;
		case MSG_TYPE_CLOSE_REQ: OBL (body == 0, "chk.close_req has no body"); break;
		case MSG_TYPE_DAEMON_PID_REQ: OBL (body == sizeof (msg->body.daemon_pid_req), "chk.daemon_pid_req size"); break;
		case MSG_TYPE_DAEMON_PID_CNF: OBL (body == sizeof (msg->body.daemon_pid_cnf), "chk.daemon_pid_cnf size"); break;
		default: OBL (0, "chk.only client request types are accepted"); break;
		}
		CANARY ("chk accepted");
	} else
		CANARY ("chk refused");
	free (msg);
}

/* ------------------------------------------------------------------ token */
#ifndef NCL
#define NCL 3
#endif
struct in_tok { int dev[NCL]; int tstate[NCL]; unsigned int who; };

static int holders (PROXY_CLNT *c, int dev)
{
	int i, n = 0;
	for (i = 0; i < NCL; ++i)
		if (c[i].dev_idx == dev && c[i].chn_state.token_state != REQ_TOKEN_NONE)
			++n;
	return n;
}

void h_token_grant (void)
{
	DECL_INPUTS (in_tok, in);
	static PROXY_CLNT c[NCL];
	int i, dev, old_req, old_owner_state = REQ_TOKEN_NONE, owner = -1;
	vbi_bool r;

	for (i = 0; i < NCL; ++i) {
		ASSUME (in.dev[i] >= 0 && in.dev[i] <= 1);
		ASSUME (in.tstate[i] >= REQ_TOKEN_NONE && in.tstate[i] <= REQ_TOKEN_RETURNED);
		c[i].dev_idx = in.dev[i]; c[i].chn_state.token_state = in.tstate[i];
		c[i].p_next = (i + 1 < NCL) ? &c[i + 1] : NULL;
	}
	proxy.p_clnts = &c[0];
	ASSUME (in.who < NCL);
	dev = c[in.who].dev_idx;
	/* invariant: at most one client of each device is not in state NONE */
	ASSUME (holders (c, 0) <= 1 && holders (c, 1) <= 1);
	old_req = c[in.who].chn_state.token_state;
	for (i = 0; i < NCL; ++i)
		if (c[i].dev_idx == dev && c[i].chn_state.token_state != REQ_TOKEN_NONE) { owner = i; old_owner_state = c[i].chn_state.token_state; }

	r = vbi_proxyd_token_grant (&c[in.who]);

	OBL (holders (c, 0) <= 1 && holders (c, 1) <= 1, "tok.at most one client of a device holds or is being handed the token");
	if (old_req == REQ_TOKEN_NONE && c[in.who].chn_state.token_state != REQ_TOKEN_NONE) {
		OBL (owner < 0 || old_owner_state == REQ_TOKEN_GRANT || old_owner_state == REQ_TOKEN_RETURNED,
		     "tok.granted to another client only if free, not yet announced to, or returned by the holder");
		OBL (r, "tok.grant reported");
		CANARY ("tok granted");
	}
	if (old_req == REQ_TOKEN_NONE && owner >= 0 && (int) in.who != owner
	    && (old_owner_state == REQ_TOKEN_GRANTED || old_owner_state == REQ_TOKEN_RECLAIM || old_owner_state == REQ_TOKEN_RELEASE)) {
		OBL (!r && c[in.who].chn_state.token_state == REQ_TOKEN_NONE, "tok.not granted while the holder controls the channel");
		OBL (c[owner].chn_state.token_state == REQ_TOKEN_RECLAIM || c[owner].chn_state.token_state == REQ_TOKEN_RELEASE,
		     "tok.the holder is asked to give the token back");
		CANARY ("tok reclaim");
	}
	for (i = 0; i < NCL; ++i)
		if (c[i].dev_idx != dev)
			OBL (c[i].chn_state.token_state == in.tstate[i], "tok.clients of other devices untouched");
}

/* ------------------------------------------------------------------ SERVICE_REQ strictness */
#ifdef SERVICE_HARNESS
#ifdef VERIF_CBMC
/* the acquisition thread is not started in this sequential analysis (assumed: thread creation fails or succeeds
   without touching the client structures) */
int pthread_create (pthread_t *t, const pthread_attr_t *a, void *(*fn)(void *), void *arg) { int nondet_int (void); return nondet_int (); }
#endif
struct in_sr { VBIPROXY_SERVICE_REQ body; };

void h_service_req (void)
{
	DECL_INPUTS (in_sr, in);
	static PROXY_CLNT c;

	c.dev_idx = 0; c.state = REQ_STATE_FORWARD; c.p_sliced = NULL; c.p_next = NULL;
	proxy.p_clnts = &c; proxy.dev_count = 1;
	/* a SERVICE_REQ accepted by vbi_proxyd_check_msg: any body */
	c.msg_buf.head.type = MSG_TYPE_SERVICE_REQ;
	c.msg_buf.head.len = sizeof (VBIPROXY_MSG_HEADER) + sizeof (c.msg_buf.body.service_req);
	c.msg_buf.body.service_req = in.body;
	(void) vbi_proxyd_take_message (&c, &c.msg_buf);
	CANARY ("service_req");
}
#endif

/* ------------------------------------------------------------------ CHN_NOTIFY_REQ and the token */
#ifdef NOTIFY_HARNESS
#ifdef VERIF_CBMC
/* external functions of this path: no effect on the client list (assumed); natively the real ones are linked */
unsigned int alarm (unsigned int seconds) { return 0; }
time_t time (time_t *t) { time_t nondet_time (void); time_t r = nondet_time (); __CPROVER_assume (r >= 0 && r < ((time_t) 1 << 40)); if (t) *t = r; return r; }
void vbi_proxy_msg_write (VBIPROXY_MSG_STATE *p_io, VBIPROXY_MSG_TYPE type, uint32_t msgLen, VBIPROXY_MSG *pMsg, vbi_bool freeBuf) { }
#endif
struct in_nt { int tstate[2]; VBIPROXY_CHN_NOTIFY_REQ body; };

void h_notify_token (void)
{
	DECL_INPUTS (in_nt, in);
	static PROXY_CLNT c[2];
	int i;

	for (i = 0; i < 2; ++i) {
		ASSUME (in.tstate[i] >= REQ_TOKEN_NONE && in.tstate[i] <= REQ_TOKEN_RETURNED);
		c[i].dev_idx = 0; c[i].state = REQ_STATE_FORWARD; c[i].chn_state.token_state = in.tstate[i];
		c[i].p_next = (i == 0) ? &c[1] : NULL; c[i].p_sliced = NULL; c[i].chn_prio = VBI_CHN_PRIO_BACKGROUND;
		c[i].chn_profile.is_valid = FALSE;
	}
	proxy.p_clnts = &c[0]; proxy.dev_count = 1; proxy.dev[0].p_capture = NULL; proxy.dev[0].chn_prio = VBI_CHN_PRIO_BACKGROUND;
	/* invariant: at most one client is not in state NONE */
	ASSUME (holders (c, 0) <= 1);
	c[0].msg_buf.head.type = MSG_TYPE_CHN_NOTIFY_REQ;
	c[0].msg_buf.head.len = sizeof (VBIPROXY_MSG_HEADER) + sizeof (c[0].msg_buf.body.chn_notify_req);
	c[0].msg_buf.body.chn_notify_req = in.body;
	/* the token related flags only; norm change and flush reach the capture device */
	ASSUME ((in.body.notify_flags & ~(VBI_PROXY_CHN_TOKEN | VBI_PROXY_CHN_RELEASE)) == 0);
	(void) vbi_proxyd_take_message (&c[0], &c[0].msg_buf);
	OBL (holders (c, 0) <= 1, "ntf.a channel notification never creates a second token holder");
	if (in.tstate[0] == REQ_TOKEN_NONE)
		OBL (c[0].chn_state.token_state == REQ_TOKEN_NONE || in.tstate[1] == REQ_TOKEN_NONE
		     || in.tstate[1] == REQ_TOKEN_GRANT || in.tstate[1] == REQ_TOKEN_RETURNED,
		     "ntf.a client that does not hold the token cannot 'return' it");
	CANARY ("notify");
}
#endif
