/* C03 (and C01) -- the error protection primitives of src/hamm.c / hamm.h,
 * the real code, against the specification encoders of hamm_spec.h. */
#include "contracts/hamm.h"
#include "src/hamm.c"

struct in_ham8 { unsigned d, e1, e2; };
struct in_ham16 { unsigned d, which, e1, e2; };
struct in_ham24 { uint32_t d; unsigned e1, e2; };
struct in_par { unsigned c, e; uint8_t buf[42]; unsigned n, k; };

#ifndef ZVBI_REPLAY
/* loop-contract proofs: any n up to HAMM_MAX_N, any contents */
void h_enforce_vbi_par (void) { uint8_t *p; unsigned n; vbi_par (p, n); CANARY ("end"); }
void h_enforce_vbi_unpar (void) { uint8_t *p; unsigned n; vbi_unpar (p, n); CANARY ("end"); }
#endif

/* Hamming 8/4: library encoder == spec; single errors corrected; double
   errors detected -- all 16 values x all error positions */
void h_lemma_ham8 (void)
{
	DECL_INPUTS (in_ham8, in);
	unsigned cw;
	ASSUME (in.d <= 15 && in.e1 <= 8 && in.e2 <= 7);
	cw = spec_ham8 (in.d);
	OBL (vbi_ham8 (in.d) == cw, "ham8.library encoder equals EN 300 706 8.2 encoder");
	/* e1 == 8: no error */
	OBL (vbi_unham8 (cw ^ ((in.e1 < 8) ? (1u << in.e1) : 0u)) == (int) in.d,
	     "ham8.single bit error corrected (or none)");
	if (in.e1 < 8 && in.e1 != in.e2) {
		OBL (vbi_unham8 (cw ^ (1u << in.e1) ^ (1u << in.e2)) < 0,
		     "ham8.double bit error detected");
		CANARY ("ham8 double");
	}
	CANARY ("ham8 end");
}

void h_lemma_ham16p (void)
{
	DECL_INPUTS (in_ham16, in);
	uint8_t p[2];
	int r;
	ASSUME (in.d <= 255 && in.which <= 1 && in.e1 <= 8 && in.e2 <= 7);
	p[0] = spec_ham8 (in.d & 15);
	p[1] = spec_ham8 (in.d >> 4);
	if (in.e1 < 8) p[in.which] ^= 1u << in.e1;
	r = vbi_unham16p (p);
	OBL (r == (int) in.d, "ham16p.single bit error in either byte corrected");
	if (in.e1 < 8 && in.e1 != in.e2) {
		p[in.which] ^= 1u << in.e2;
		OBL (vbi_unham16p (p) < 0, "ham16p.double bit error in a byte gives a negative result");
		CANARY ("ham16p double");
	}
	CANARY ("ham16p end");
}

/* Hamming 24/18: all 2^18 values x all single errors; all double errors */
void h_lemma_ham24 (void)
{
	DECL_INPUTS (in_ham24, in);
	uint8_t p[3], q[3];
	uint32_t cw;
	ASSUME (in.d < (1u << 18) && in.e1 <= 24 && in.e2 <= 23);
#ifdef SEL_E1	/* exhaustive case split on the first error position, 0..24 */
	ASSUME (in.e1 == SEL_E1);
#endif
	cw = spec_ham24 (in.d);
	vbi_ham24p (q, in.d);
	OBL ((uint32_t) (q[0] | (q[1] << 8) | (q[2] << 16)) == cw,
	     "ham24.library encoder equals EN 300 706 8.3 encoder");
	if (in.e1 < 24) cw ^= 1u << in.e1;
	p[0] = cw & 255; p[1] = (cw >> 8) & 255; p[2] = (cw >> 16) & 255;
	OBL (vbi_unham24p (p) == (int) in.d, "ham24.single bit error corrected (or none)");
	if (in.e1 < 24 && in.e1 != in.e2) {
		cw ^= 1u << in.e2;
		p[0] = cw & 255; p[1] = (cw >> 8) & 255; p[2] = (cw >> 16) & 255;
		OBL (vbi_unham24p (p) < 0, "ham24.double bit error detected");
#if !defined (SEL_E1) || SEL_E1 < 24
		CANARY ("ham24 double");
#endif
	}
	CANARY ("ham24 end");
}

/* odd parity, scalar and array forms */
void h_lemma_par (void)
{
	DECL_INPUTS (in_par, in);
	uint8_t buf[42], old[42];
	unsigned i, bad = 0;
	int r;
	ASSUME (in.c <= 127 && in.e <= 7 && in.n <= 42 && in.k < in.n);
	OBL (vbi_par8 (in.c) == spec_par8 (in.c), "par8.library encoder equals odd parity spec");
	OBL (vbi_par8 (in.c | 128) == spec_par8 (in.c), "par8.ignores incoming parity bit");
	OBL (vbi_unpar8 (spec_par8 (in.c)) == (int) in.c, "unpar8.good parity returns the 7 data bits");
	OBL (vbi_unpar8 (spec_par8 (in.c) ^ (1u << in.e)) < 0, "unpar8.single bit error detected");

	for (i = 0; i < 42; ++i) buf[i] = old[i] = in.buf[i];
	vbi_par (buf, in.n);
	OBL (buf[in.k] == spec_par8 (old[in.k] & 127), "vbi_par.every byte gets odd parity");
	for (i = 0; i < 42; ++i)
		if (i >= in.n) OBL (buf[i] == old[i], "vbi_par.bytes beyond n untouched");

	for (i = 0; i < 42; ++i) buf[i] = in.buf[i];
	for (i = 0; i < 42; ++i)
		if (i < in.n && spec_par8 (old[i] & 127) != old[i]) bad = 1;
	r = vbi_unpar (buf, in.n);
	OBL ((r < 0) == (bad != 0), "vbi_unpar.negative iff some byte has even parity");
	OBL (buf[in.k] == (old[in.k] & 127), "vbi_unpar.parity bit cleared in place");
	for (i = 0; i < 42; ++i)
		if (i >= in.n) OBL (buf[i] == old[i], "vbi_unpar.bytes beyond n untouched");
	CANARY ("par end");
}

/* the constant table used by specifications that decode many bytes equals
   the specification function */
struct in_tab { unsigned b; };
void h_lemma_spec_tab (void)
{
	DECL_INPUTS (in_tab, in);
	ASSUME (in.b <= 255);
	OBL (spec_unham8c (in.b) == spec_unham8 (in.b), "spec.unham8 table equals the specification decoder");
	OBL (spec_unham8 (in.b) == vbi_unham8 (in.b), "ham8.library decoder equals the specification decoder (nearest code word, -1 at distance 2)");
	CANARY ("spec tab end");
}
