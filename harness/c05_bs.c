/* C05 -- the bit slicer reads no sample beyond samples_per_line.
 *
 * Real code: src/bit_slicer.c (vbi3_bit_slicer_set_params, bit_slicer_*,
 * low_pass_bit_slicer_Y8, vbi3_bit_slicer_slice) and the service table of
 * src/raw_decoder.c, both #included unchanged.
 *
 *  T-B  h_setparams     set_params() == TRUE  ==>  WF_BS (bs, samples_per_line)
 *                       per service table row (SEL_ROW), all sampling rates,
 *                       offsets, samples per line, cri_end, pixel formats
 *  T-B' h_permit        _vbi_sampling_par_permit_service() accepted the row
 *                       ==> set_params() succeeds (the assert in
 *                       vbi3_raw_decoder_add_services is unreachable)
 *  T-A  h_slice_*       slicer function under WF_BS: every read inside
 *                       raw[0 .. spl*bps), every write inside
 *                       buffer[0 .. BS_OUT_BYTES)      (CBMC pointer checks)
 */
#include "contracts/bs.h"
#include "src/bit_slicer.c"
#undef VBI_PIXFMT_RGB8
#include "src/raw_decoder.c"
#include "src/sampling_par.c"

/* logging has no effect on program state (assumed, see trusted base) */
_vbi_log_hook _vbi_global_log;
void _vbi_log_printf (vbi_log_fn *log_fn, void *user_data, vbi_log_mask level,
		      const char *source_file, const char *context, const char *templ, ...)
{
}

#define NROWS_EXPECTED 18
#ifndef SEL_ROW
#define SEL_ROW 2
#endif

static int
lowpass_selected (const vbi3_bit_slicer *bs)
{
	return bs->func == low_pass_bit_slicer_Y8;
}

static unsigned int
green_width (const vbi3_bit_slicer *bs)
{
	return (bs->func == bit_slicer_RGB16_LE || bs->func == bit_slicer_RGB16_BE) ? 2 : 1;
}

/* ---------------------------------------------------------------- T-B */

struct in_sp {
	vbi_pixfmt fmt;
	unsigned int sampling_rate, sample_offset, samples_per_line, cri_end;
};

void h_setparams (void)
{
	DECL_INPUTS (in_sp, in);
	static vbi3_bit_slicer bs;
	const _vbi_service_par *par = &_vbi_service_table[SEL_ROW];
	vbi_bool r;

	ASSUME (par->id != 0);
	/* documented preconditions (asserted by the function itself) */
	ASSUME (in.samples_per_line <= 32767);
#ifdef SEL_FMT
	in.fmt = SEL_FMT;	/* case split on the pixel format */
#endif
	r = vbi3_bit_slicer_set_params (&bs, in.fmt, in.sampling_rate, in.sample_offset,
					in.samples_per_line,
					par->cri_frc >> par->frc_bits,
					par->cri_frc_mask >> par->frc_bits,
					par->cri_bits, par->cri_rate, in.cri_end,
					par->cri_frc & ((1U << par->frc_bits) - 1),
					par->frc_bits, par->payload, par->bit_rate,
					par->modulation);
	if (r) {
		OBL (bs.func != null_function, "bs.accepted parameters select a slicer function");
		OBL (WF_BS (&bs, in.samples_per_line, lowpass_selected (&bs), green_width (&bs)),
		     "bs.T-B accepted parameters keep every sampling point inside samples_per_line");
		OBL (BS_NBITS (&bs) == par->frc_bits + par->payload, "bs.bit count is the service's");
		OBL (BS_OUT_BYTES (&bs) == (par->payload + 7) / 8 && BS_OUT_BYTES (&bs) <= 56,
		     "bs.payload fits the 56 byte sliced record");
		CANARY ("setparams accepted");
	} else {
		OBL (bs.func == null_function, "bs.refused parameters disable the slicer");
		CANARY ("setparams refused");
	}
}

/* the table has exactly the rows the case split enumerates */
void h_table_end (void)
{
	unsigned int n;

	for (n = 0; _vbi_service_table[n].id != 0; ++n)
		;
	OBL (n == NROWS_EXPECTED, "bs.case split covers every row of _vbi_service_table");
	/* vbi3_raw_decoder_add_services() masks the blank-VBI pseudo services out before it configures
	   slicers (services &= ~(VBI_SLICED_VBI_525 | VBI_SLICED_VBI_625)): exactly rows 10 and 17,
	   for which the permit => set_params lemma is therefore not needed */
	for (n = 0; n < NROWS_EXPECTED; ++n)
		OBL ((0 != (_vbi_service_table[n].id & (VBI_SLICED_VBI_525 | VBI_SLICED_VBI_625))) == (n == 10 || n == 17),
		     "bs.the blank VBI rows are rows 10 and 17 only");
}

/* pixel formats outside the enumerated cases are refused */
void h_setparams_other_fmt (void)
{
	DECL_INPUTS (in_sp, in);
	static vbi3_bit_slicer bs;
	const _vbi_service_par *par = &_vbi_service_table[2];

	ASSUME (in.samples_per_line <= 32767);
	ASSUME (!((in.fmt >= 1 && in.fmt <= 5) || (in.fmt >= 32 && in.fmt <= 49)));
	OBL (!vbi3_bit_slicer_set_params (&bs, in.fmt, in.sampling_rate, in.sample_offset,
					in.samples_per_line,
					par->cri_frc >> par->frc_bits,
					par->cri_frc_mask >> par->frc_bits,
					par->cri_bits, par->cri_rate, in.cri_end,
					par->cri_frc & ((1U << par->frc_bits) - 1),
					par->frc_bits, par->payload, par->bit_rate,
					par->modulation),
	     "bs.pixel formats outside the case split are refused");
	CANARY ("other fmt");
}

/* ---------------------------------------------------------------- T-B' */

struct in_permit {
	vbi_sampling_par sp;
	unsigned int strict;
};

void h_permit (void)
{
	DECL_INPUTS (in_permit, in);
	static vbi3_bit_slicer bs;
	static _vbi_log_hook log;
	const _vbi_service_par *par = &_vbi_service_table[SEL_ROW];
	unsigned int spl;

	ASSUME (par->id != 0);
	/* rows that vbi3_raw_decoder_add_services() configures a slicer for (raw_decoder.c: blank VBI masked out) */
	ASSUME (0 == (par->id & (VBI_SLICED_VBI_525 | VBI_SLICED_VBI_625)));
	ASSUME (in.sp.sampling_rate > 0 && in.sp.bytes_per_line > 0);
	/* a pixel format the bit slicer implements (VBI_PIXFMT_PAL8 and values
	   that are no enumerator pass _vbi_sampling_par_valid_log: residual) */
#ifdef SEL_FMT
	in.sp.sp_sample_format = SEL_FMT;
#endif
	ASSUME ((in.sp.sp_sample_format >= VBI_PIXFMT_YUV420 && in.sp.sp_sample_format <= VBI_PIXFMT_VYUY)
		|| (in.sp.sp_sample_format >= VBI_PIXFMT_RGBA32_LE && in.sp.sp_sample_format <= VBI_PIXFMT_ABGR15_BE));
	ASSUME (_vbi_sampling_par_valid_log (&in.sp, &log));
	ASSUME (_vbi_sampling_par_permit_service (&in.sp, par, in.strict, &log));
	/* the argument expressions of vbi3_raw_decoder_add_services() */
	spl = in.sp.bytes_per_line / VBI_PIXFMT_BPP (in.sp.sp_sample_format);
	ASSUME (spl <= 32767);	/* see DESIGN.md: asserted, not checked, by the library */
	OBL (vbi3_bit_slicer_set_params (&bs, in.sp.sp_sample_format, in.sp.sampling_rate,
					 0, spl,
					 par->cri_frc >> par->frc_bits,
					 par->cri_frc_mask >> par->frc_bits,
					 par->cri_bits, par->cri_rate, ~0u,
					 par->cri_frc & ((1U << par->frc_bits) - 1),
					 par->frc_bits, par->payload, par->bit_rate,
					 par->modulation),
	     "bs.T-B' a permitted service is accepted by set_params (no abort in add_services)");
	CANARY ("permit reachable");
}

/* ---------------------------------------------------------------- T-A */

#ifndef SEL_BPS
#define SEL_BPS 1
#endif
#ifndef SEL_FUNC
#define SEL_FUNC bit_slicer_Y8
#endif
#ifndef SEL_LOWPASS
#define SEL_LOWPASS 0
#endif
#ifndef SEL_GW
#define SEL_GW 1
#endif
#ifndef SEL_FRC
#define SEL_FRC 2
#endif
#ifndef SEL_PAYLOAD
#define SEL_PAYLOAD 2
#endif
#ifndef SEL_ENDIAN
#define SEL_ENDIAN 1
#endif
#ifndef MAX_SPL
#define MAX_SPL 40
#endif
#ifndef SEL_CRI
#define SEL_CRI 1
#endif

struct in_slice {
	vbi3_bit_slicer bs;
	uint8_t raw[MAX_SPL * SEL_BPS];	/* exactly samples_per_line samples */
};

void h_slice (void)
{
	DECL_INPUTS (in_slice, in);
	static vbi3_bit_slicer bs;
	uint8_t buffer[56];
	unsigned int k, nbytes;
	vbi_bool r;

	bs = in.bs;
	bs.func = SEL_FUNC;
	bs.bytes_per_sample = SEL_BPS;
	bs.frc_bits = SEL_FRC;
	bs.payload = SEL_PAYLOAD;
	bs.endian = SEL_ENDIAN;
	bs.cri_samples = SEL_CRI;	/* the bound of this stand-in */
	bs.log.fn = NULL; bs.log.mask = 0;
	ASSUME (WF_BS (&bs, MAX_SPL, SEL_LOWPASS, SEL_GW));
	ASSUME (bs.thresh_frac <= 16 && bs.oversampling_rate >= 1);
	nbytes = BS_OUT_BYTES (&bs);
	ASSUME (nbytes <= sizeof (buffer));
	{
		/* an output object of exactly the payload size; the input object
		   in.raw has exactly samples_per_line * bytes_per_sample bytes: any
		   access beyond either fails CBMC's pointer checks (natively: ASan) */
		uint8_t *out = malloc (nbytes ? nbytes : 1);
		ASSUME (out != NULL);
		r = vbi3_bit_slicer_slice (&bs, out, nbytes, in.raw);
		free (out);
	}
	(void) k; (void) buffer;
	if (r)
		CANARY ("slice found");
	else
		CANARY ("slice not found");
}
