/* C10 (and the cache clause of C17) -- bookkeeping of src/cache.c, the real
 * code, as per-operation accounting contracts:
 *
 *  h_delete_page   delete_page: a referenced page only becomes a zombie; an
 *                  unreferenced page leaves all lists and counters, and
 *                  memory_used decreases by its size iff it was counted, i.e.
 *                  iff it is no zombie (memory accounting = sum of the sizes
 *                  of unreferenced, non-zombie pages)
 *  h_add_page      cache_network_add_page: counters +1, maxima, and the
 *                  subpage window [subno_min, subno_max] contains the stored
 *                  subpage number (the page walk of vbi_search / foreach_page
 *                  skips subpages outside the window)
 *  h_recycle       recycle_network reuses only a network that nobody
 *                  references and none of whose pages is referenced
 * Lists are small rings built by the harness (bounded shapes).
 */
#include "shim/verif.h"
#include "src/cache.c"

_vbi_log_hook _vbi_global_log;
void _vbi_log_printf (vbi_log_fn *log_fn, void *user_data, vbi_log_mask level,
		      const char *source_file, const char *context, const char *templ, ...)
{
}

static void ring1 (struct node *head, struct node *n)
{
	head->_succ = n; head->_pred = n; n->_succ = head; n->_pred = head;
}
static void ring0 (struct node *head) { head->_succ = head; head->_pred = head; }

struct in_dp {
	int ref_count, priority, function, x26, x28;
	unsigned int pgno, subno;
	unsigned long memory_used;
	unsigned int ca_n, cn_n, cn_ref;
	unsigned char ps_n;
};

void h_delete_page (void)
{
	DECL_INPUTS (in_dp, in);
	static vbi_cache ca;
	cache_network *cn = malloc (sizeof (cache_network));
	cache_page *cp = malloc (sizeof (cache_page));
	struct ttx_page_stat *ps;
	unsigned long size;
	int zombie;

	ASSUME (cn != NULL && cp != NULL);
#ifdef SEL_PGNO	/* case split: the statistics entry addressed (symbolic indices into the 16 kB table stall CBMC) */
	in.pgno = SEL_PGNO;
#endif
	ASSUME (in.pgno >= 0x100 && in.pgno <= 0x8FF);
	ASSUME (in.ref_count >= 0 && in.ref_count <= 3);
	ASSUME (in.priority >= CACHE_PRI_ZOMBIE && in.priority <= CACHE_PRI_SPECIAL);
	ASSUME (in.function >= PAGE_FUNCTION_ACI && in.function <= PAGE_FUNCTION_IEC_TRIGGER);
	cp->ref_count = in.ref_count; cp->priority = in.priority; cp->function = in.function;
	cp->x26_designations = in.x26; cp->x28_designations = in.x28;
	cp->pgno = in.pgno; cp->subno = in.subno; cp->network = cn;
	cn->cache = &ca; cn->n_cached_pages = in.cn_n; cn->n_referenced_pages = in.cn_ref; cn->zombie = 0; cn->ref_count = 1;
	ps = cache_network_page_stat (cn, in.pgno); ps->n_subpages = in.ps_n;
	ASSUME (in.cn_n >= 1 && in.ca_n >= 1 && in.ps_n >= 1);
	ca.n_cached_pages = in.ca_n; ca.memory_used = in.memory_used; ca.memory_limit = ~0ul;
	zombie = (in.priority == CACHE_PRI_ZOMBIE);
	size = cache_page_size (cp);
	/* lists: a zombie is only on ca.referenced (ref > 0) or on no hash list;
	   other pages are on a hash list and on priority / referenced */
	ring0 (&ca.priority); ring0 (&ca.referenced); ring0 (&ca.hash[0]);
	if (in.ref_count > 0) ring1 (&ca.referenced, &cp->pri_node); else ring1 (&ca.priority, &cp->pri_node);
	if (!zombie) ring1 (&ca.hash[0], &cp->hash_node);
	/* memory accounting invariant: an unreferenced non-zombie page is counted */
	if (in.ref_count == 0 && !zombie) ASSUME (in.memory_used >= size);
	ASSUME (!(zombie && in.ref_count == 0) || 1);

	delete_page (&ca, cp);

	if (in.ref_count > 0) {
		OBL (cp->priority == CACHE_PRI_ZOMBIE && ca.hash[0]._succ == &ca.hash[0],
		     "del.a page still held by a caller becomes a zombie and leaves the lookup table");
		OBL (ca.memory_used == in.memory_used && ca.n_cached_pages == in.ca_n && cn->n_cached_pages == in.cn_n
		     && ca.referenced._succ == &cp->pri_node, "del.a held page stays intact and accounted as before");
		CANARY ("del held");
		free (cp);
	} else {
		OBL (ca.n_cached_pages == in.ca_n - 1 && cn->n_cached_pages == in.cn_n - 1 && ps->n_subpages == in.ps_n - 1,
		     "del.cache, network and page counters decrease by one");
		OBL (ca.priority._succ == &ca.priority && ca.hash[0]._succ == &ca.hash[0], "del.the page is on no list any more");
		if (zombie)
			OBL (ca.memory_used == in.memory_used, "del.a zombie page was not counted in memory_used and is not subtracted");
		else
			OBL (ca.memory_used == in.memory_used - size, "del.memory_used decreases by the size of the unreferenced page");
		CANARY ("del freed");
	}
	free (cn);
}

struct in_ap { unsigned int pgno, subno; unsigned char n, max, smin, smax; unsigned int cn_n, cn_max; };

void h_add_page (void)
{
	DECL_INPUTS (in_ap, in);
	static vbi_cache ca;
	cache_network *cn = malloc (sizeof (cache_network));
	static cache_page cp;
	struct ttx_page_stat *ps;

	ASSUME (cn != NULL);
#ifdef SEL_PGNO
	in.pgno = SEL_PGNO;
#endif
	ASSUME (in.pgno >= 0x100 && in.pgno <= 0x8FF && in.subno <= 0x3F7F);
	cn->cache = &ca; cn->zombie = 0; cn->n_cached_pages = in.cn_n; cn->max_cached_pages = in.cn_max;
	ASSUME (in.cn_n < 0x800 * 80 && in.cn_max >= in.cn_n);
	ps = cache_network_page_stat (cn, in.pgno);
	ps->n_subpages = in.n; ps->max_subpages = in.max; ps->subno_min = in.smin; ps->subno_max = in.smax;
	/* statistics invariant: nothing stored <=> empty window; else min <= max */
	ASSUME (in.n < 80 && in.max >= in.n);
	ASSUME ((in.n == 0 && in.smin == 0 && in.smax == 0) || (in.n > 0 && in.smin <= in.smax));
	cp.pgno = in.pgno; cp.subno = in.subno;

	cache_network_add_page (cn, &cp);

	OBL (cp.network == cn && cn->n_cached_pages == in.cn_n + 1 && cn->max_cached_pages >= cn->n_cached_pages,
	     "add.network counters follow the stored pages");
	OBL (ps->n_subpages == in.n + 1 && ps->max_subpages >= ps->n_subpages, "add.subpage counters follow the stored pages");
	OBL (ps->subno_min <= ps->subno_max, "add.subpage window well formed");
	if (in.subno <= 0xFF)
		OBL (ps->subno_min <= in.subno && in.subno <= ps->subno_max,
		     "add.the stored subpage number lies inside the subpage window the page walk uses");
	else
		OBL (ps->subno_min <= in.subno && in.subno <= ps->subno_max,
		     "add.a stored subpage number above 0xFF lies inside the subpage window the page walk uses");
	if (in.n > 0 && in.smin != 0)
		OBL (ps->subno_min <= in.smin && ps->subno_max >= in.smax, "add.the window only grows");
	CANARY ("add");
	free (cn);
}

struct in_rc { unsigned int ref[2], nref[2], ncached[2]; };

void h_recycle (void)
{
	DECL_INPUTS (in_rc, in);
	static vbi_cache ca;
	cache_network *n0 = malloc (sizeof (cache_network)), *n1 = malloc (sizeof (cache_network)), *r;

	ASSUME (n0 != NULL && n1 != NULL);
	n0->ref_count = in.ref[0]; n1->ref_count = in.ref[1];
	n0->n_referenced_pages = in.nref[0]; n1->n_referenced_pages = in.nref[1];
	n0->n_cached_pages = in.ncached[0]; n1->n_cached_pages = in.ncached[1];
	n0->cache = &ca; n1->cache = &ca; n0->zombie = 0; n1->zombie = 0;
	/* networks list: n0 (most recently used), n1; page lists empty (shape bound) */
	ca.networks._succ = &n0->node; n0->node._pred = &ca.networks; n0->node._succ = &n1->node;
	n1->node._pred = &n0->node; n1->node._succ = &ca.networks; ca.networks._pred = &n1->node;
	ring0 (&ca.priority); ring0 (&ca.referenced);

	r = recycle_network (&ca);

	if (r != NULL) {
		unsigned int i = (r == n1);
		OBL (r == n0 || r == n1, "rec.a network of this cache");
		OBL (in.ref[i] == 0 && in.nref[i] == 0,
		     "rec.only a network without references and without referenced pages is reused");
		OBL (r->n_cached_pages == 0 && r->n_referenced_pages == 0 && r->ref_count == 0, "rec.reused network starts empty");
		CANARY ("rec reused");
	} else {
		OBL (!(in.ref[0] == 0 && in.nref[0] == 0) && !(in.ref[1] == 0 && in.nref[1] == 0), "rec.NULL only if no network is free");
		CANARY ("rec none");
	}
	free (n0); free (n1);
}
