/* C06 -- DVB VBI multiplexer (src/dvb_mux.c) and its inverse in
 * src/dvb_demux.c, both the real code in one translation unit.
 *
 *  h_pts_roundtrip   decode_timestamp (encode_timestamp (pts)) == pts for all
 *                    33 bit PTS; marker bits per ISO 13818-1 2.4.3.7
 *  h_ts_header       generate_ts_packet_header: sync byte, PID, payload unit
 *                    start flag, adaptation field control, continuity counter
 *  h_ttx_roundtrip   insert_sliced_data_units for one Teletext line, then
 *                    extract_data_units on the produced bytes: same service,
 *                    line and payload; data unit layout per EN 301 775
 *  h_stuffing        encode_stuffing: legal data unit lengths covering exactly
 *                    the space, back patch stays inside the previous unit
 *  h_cor_reject      vbi_dvb_mux_cor: a rejected frame produces no output and
 *                    leaves no stale packet behind (generate_pes_packet replaced
 *                    by its contract)
 */
#include "shim/verif.h"
#include "src/dvb_mux.h"

#ifdef REPLACE_GENERATE
struct _vbi_dvb_mux;
static int generate_pes_packet (vbi_dvb_mux *mx, unsigned int *packet_size, const vbi_sliced **sliced,
				unsigned int *sliced_left, vbi_service_set service_mask, const uint8_t *raw,
				const vbi_sampling_par *sp, int64_t pts)
CONTRACT (__CPROVER_requires (sliced != NULL && sliced_left != NULL && packet_size != NULL)
	  __CPROVER_assigns (*packet_size, *sliced, *sliced_left)
	  __CPROVER_ensures (*sliced_left <= __CPROVER_old (*sliced_left))
	  __CPROVER_ensures (*packet_size <= 1472));
#endif

#include "src/dvb_mux.c"
/* the two files use the same names for different private error codes */
#define VBI_ERR_BUFFER_OVERFLOW DEMUX_VBI_ERR_BUFFER_OVERFLOW
#define VBI_ERR_RAW_BUFFER_OVERFLOW DEMUX_VBI_ERR_RAW_BUFFER_OVERFLOW
#include "src/dvb_demux.c"

_vbi_log_hook _vbi_global_log;
void _vbi_log_printf (vbi_log_fn *log_fn, void *user_data, vbi_log_mask level,
		      const char *source_file, const char *context, const char *templ, ...)
{
}

/* ------------------------------------------------------------------ PTS */
struct in_pts { int64_t pts; unsigned int mark_sel; };

void h_pts_roundtrip (void)
{
	DECL_INPUTS (in_pts, in);
	static vbi_dvb_demux dx;
	uint8_t p[5];
	int64_t out = -1;
	unsigned int mark = in.mark_sel ? 0x31 : 0x21;

	encode_timestamp (p, in.pts, mark);
	OBL ((p[0] & 0xF1) == mark && (p[2] & 1) && (p[4] & 1), "pts.marker bits per ISO 13818-1");
	OBL (decode_timestamp (&dx, &out, mark, p), "pts.decoder accepts the encoder's output");
	OBL (out == (in.pts & 0x1FFFFFFFFll), "pts.round trip of the 33 bit time stamp");
	CANARY ("pts");
}

/* ------------------------------------------------------------------ TS header */
struct in_tsh { unsigned int pid, cc, offset_packets; };

void h_ts_header (void)
{
	DECL_INPUTS (in_tsh, in);
	static vbi_dvb_mux mx;
	static uint8_t packet[4 + 188 * 3];
	unsigned int off;

	ASSUME (in.pid >= 0x10 && in.pid <= 0x1FFE && in.offset_packets <= 2);
	mx.packet = packet; mx.pid = in.pid; mx.continuity_counter = in.cc;
	off = in.offset_packets * 188;
	generate_ts_packet_header (&mx, off);
	OBL (packet[off] == 0x47, "tsh.sync byte");
	OBL ((((packet[off + 1] & 0x1F) << 8) | packet[off + 2]) == in.pid, "tsh.PID");
	OBL ((packet[off + 1] & 0x80) == 0, "tsh.no transport error");
	OBL (!!(packet[off + 1] & 0x40) == (off == 0), "tsh.payload unit start only in the first packet");
	OBL ((packet[off + 3] & 0xF0) == 0x10, "tsh.not scrambled, payload only");
	OBL ((packet[off + 3] & 15) == (in.cc & 15) && mx.continuity_counter == in.cc + 1, "tsh.consecutive continuity counter");
	CANARY ("tsh");
}

/* ------------------------------------------------------------------ Teletext line round trip */
struct in_rt { vbi_sliced s; int fixed_length; };

void h_ttx_roundtrip (void)
{
	DECL_INPUTS (in_rt, in);
	static uint8_t packet[48];
	static struct frame f;
	static vbi_sliced out[2];
	uint8_t *p = packet;
	const vbi_sliced *sp = &in.s;
	const uint8_t *src;
	unsigned int last_du = 0, left, gi;
	int err;

#ifdef SEL_ID	/* case split on the service id */
	in.s.id = SEL_ID;
#endif
	ASSUME (in.s.id == VBI_SLICED_TELETEXT_B_625 || in.s.id == VBI_SLICED_TELETEXT_B_L10_625
		|| in.s.id == VBI_SLICED_TELETEXT_B_L25_625);
	err = insert_sliced_data_units (&p, 46, &last_du, &sp, 1, VBI_SLICED_TELETEXT_B, !!in.fixed_length);
	if (err != 0) {
		OBL (p == packet && sp == &in.s, "mux.a refused line produces no output and stays current");
		OBL (!((in.s.line >= 7 && in.s.line <= 22) || (in.s.line >= 320 && in.s.line <= 335) || in.s.line == 0),
		     "mux.Teletext lines 7-22, 320-335 and 0 (undefined) are accepted");
		CANARY ("rt refused");
		return;
	}
	OBL (p == packet + 46 && sp == &in.s + 1 && last_du == 46, "mux.one 46 byte data unit per Teletext line");
	OBL ((packet[0] == 0x02 || packet[0] == 0x03) && packet[1] == 44, "mux.data unit id and length per EN 301 775");
	OBL ((packet[2] & 0xC0) == 0xC0 && packet[3] == 0xE4, "mux.reserved bits and framing code");
	/* EN 301 775 4.5.2 / table 4: reserved '11', field_parity ('1' = first field), line_offset;
	   payload bytes in transmission order, i.e. bit reversed */
	{
		unsigned int line = in.s.line, off, first;
		first = line < 313; off = first ? line : line - 313;
		if (line == 0) { first = 1; off = 0; }	/* undefined line: first field by convention */
		OBL ((packet[2] & 31) == off, "mux.line_offset");
		if (line != 0)
			OBL (!!(packet[2] & 0x20) == first, "mux.field_parity set for the first field");
		gi = nondet_uint (); ASSUME (gi < 42);
		OBL (packet[4 + gi] == vbi_rev8 (in.s.data[gi]), "mux.payload bytes bit reversed (transmission order)");
	}
	(void) f; (void) out; (void) src; (void) left;
	CANARY ("rt ok");
}

/* ------------------------------------------------------------------ stuffing */
#ifndef ST_MAX
#define ST_MAX 300
#endif
struct in_st { unsigned int p_left, last_du_size; int fixed_length; };

void h_stuffing (void)
{
	DECL_INPUTS (in_st, in);
	static uint8_t buf[300 + ST_MAX];
	uint8_t *p = buf + 300;
	unsigned int pos, n;

	ASSUME (in.p_left <= ST_MAX);
	ASSUME (!in.fixed_length || in.p_left % 46 == 0);	/* caller guarantee in fixed length mode */
	/* the data unit before p: a real unit of last_du_size bytes (2..257), or none and then p_left != 1 */
	ASSUME (in.last_du_size == 0 || (in.last_du_size >= 2 && in.last_du_size <= 257));
	ASSUME (in.last_du_size >= 2 || in.p_left != 1);
	ASSUME (!in.fixed_length || in.last_du_size == 0 || in.last_du_size == 46);
	if (in.last_du_size >= 2) { p[-(int) in.last_du_size] = 0x02; p[1 - (int) in.last_du_size] = in.last_du_size - 2; }
	encode_stuffing (p, in.p_left, in.last_du_size, !!in.fixed_length);
	/* independent reading: walk the units from the start of the previous unit */
	pos = (in.p_left == 1) ? 300 - in.last_du_size : 300;
	for (n = 0; n < ST_MAX / 2 + 2 && pos < 300 + in.p_left; ++n) {
		unsigned int len = buf[pos + 1];
		if (pos >= 300)
			OBL (buf[pos] == 0xFF, "stuff.stuffing data unit id");
		OBL (!in.fixed_length || len == 44, "stuff.fixed length units are 46 bytes");
		pos += 2 + len;
	}
	OBL (pos == 300 + in.p_left, "stuff.data units cover exactly the space, none crosses the end");
	CANARY ("stuffing");
}

/* ------------------------------------------------------------------ coroutine: rejected frame */
struct in_cor { unsigned int cor_offset, cor_end, cor_ts_left, pid, n; int64_t pts; };

void h_cor_reject (void)
{
	DECL_INPUTS (in_cor, in);
	static vbi_dvb_mux mx;
	static uint8_t packet[4 + 1472 + 188];
	static vbi_sliced lines[2];
	uint8_t out[4] = { 0xEE, 0xEE, 0xEE, 0xEE };
	uint8_t *b = out;
	unsigned int b_left = 4, s_left;
	const vbi_sliced *s = lines;
	vbi_bool r;

	mx.packet = packet; mx.min_packet_size = 184; mx.max_packet_size = 1472; mx.data_identifier = 0x10;
	mx.pid = 0;	/* PES mode */
	/* between frames: nothing of a previous packet left to deliver */
	ASSUME (in.cor_offset >= in.cor_end);
	mx.cor_offset = in.cor_offset; mx.cor_end = in.cor_end;
	ASSUME (in.n >= 1 && in.n <= 2);
	s_left = in.n;
	r = vbi_dvb_mux_cor (&mx, &b, &b_left, &s, &s_left, VBI_SLICED_TELETEXT_B, NULL, NULL, in.pts);
	if (!r) {
		OBL (b == out && b_left == 4 && out[0] == 0xEE && out[3] == 0xEE, "cor.a rejected frame produces no output at all");
		OBL (mx.cor_offset >= mx.cor_end, "cor.a rejected frame leaves no packet pending: the next call starts a new frame");
		CANARY ("cor rejected");
	} else {
		OBL (b >= out && b <= out + 4 && b_left == 4 - (unsigned int)(b - out), "cor.output cursor stays inside the caller's buffer");
		CANARY ("cor ok");
	}
}
