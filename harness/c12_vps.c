/* C12 -- VPS / DVB PDC descriptor codecs (src/vps.c), the real code.
 *
 * h_enforce_*   : entry points for `goto-instrument --dfcc --enforce-contract`
 *                 (contracts in contracts/vps.h; the callee is havoc'd by
 *                 is_fresh, so these are proofs for all buffers and values)
 * h_lemma_*     : lemmas over the contracts (callees replaced by contract)
 *                 and whole-buffer frame obligations over the real bodies
 */
#include "contracts/vps.h"
#include "src/vps.c"

#ifndef ZVBI_REPLAY
void h_enforce_decode_vps_cni (void)
{ unsigned int *cni; const uint8_t *b; vbi_decode_vps_cni (cni, b); CANARY ("end"); }
void h_enforce_encode_vps_cni (void)
{ uint8_t *b; unsigned int cni; vbi_encode_vps_cni (b, cni); CANARY ("end"); }
void h_enforce_decode_vps_pdc (void)
{ vbi_program_id *pid; const uint8_t *b; vbi_decode_vps_pdc (pid, b); CANARY ("end"); }
void h_enforce_encode_vps_pdc (void)
{ uint8_t *b; const vbi_program_id *pid; vbi_encode_vps_pdc (b, pid); CANARY ("end"); }
void h_enforce_decode_dvb_pdc (void)
{ vbi_program_id *pid; const uint8_t *b; vbi_decode_dvb_pdc_descriptor (pid, b); CANARY ("end"); }
void h_enforce_encode_dvb_pdc (void)
{ uint8_t *b; const vbi_program_id *pid; vbi_encode_dvb_pdc_descriptor (b, pid); CANARY ("end"); }
#endif

struct in_vps_cni { uint8_t buf[13]; unsigned int cni; };
struct in_vps_pdc { uint8_t buf[13]; vbi_program_id pid, got; };
struct in_dvb_pdc { uint8_t buf[5]; vbi_program_id pid, got; };

/* decode(encode(buf, v)) == v ; encode touches only its field bits ;
   encode(decode(buf)) reproduces those bits ; refusal leaves buf alone */
void h_lemma_vps_cni (void)
{
	DECL_INPUTS (in_vps_cni, in);
	uint8_t buf[13], old[13], again[13];
	unsigned int cni = in.cni, got = 0xFFFFFFFFu, got2;
	unsigned int i;
	vbi_bool r;
	for (i = 0; i < 13; ++i) { buf[i] = old[i] = in.buf[i]; }

	r = vbi_encode_vps_cni (buf, cni);
	OBL (r == (cni <= 0xFFF), "vps_cni.encode accepts exactly 12-bit CNIs");
	for (i = 0; i < 13; ++i) {
		if (r)
			OBL (((buf[i] ^ old[i]) & ~spec_vps_cni_mask[i]) == 0,
			     "vps_cni.encode changes only CNI field bits");
		else
			OBL (buf[i] == old[i], "vps_cni.refused encode leaves buffer unmodified");
	}
	if (r) {
		OBL (vbi_decode_vps_cni (&got, buf) == 1, "vps_cni.decode succeeds");
		if (cni == 0x0DC3)
			OBL (got == ((buf[2] & 0x10) ? 0x0DC1 : 0x0DC2),
			     "vps_cni.0xDC3 decodes to ARD/ZDF by distinction bit");
		else
			OBL (got == cni, "vps_cni.decode(encode(v)) == v");
		CANARY ("vps_cni accepted path");
	} else {
		CANARY ("vps_cni refused path");
	}

	/* re-encode what an arbitrary buffer decodes to */
	for (i = 0; i < 13; ++i) again[i] = old[i];
	vbi_decode_vps_cni (&got2, old);
	if (SPEC_VPS_CNI_RAW (old) != 0x0DC3) {
		OBL (vbi_encode_vps_cni (again, got2) == 1, "vps_cni.re-encode accepted");
		for (i = 0; i < 13; ++i)
			OBL (again[i] == old[i], "vps_cni.encode(decode(buf)) reproduces buf");
	}
}

void h_lemma_vps_pdc (void)
{
	DECL_INPUTS (in_vps_pdc, in);
	uint8_t buf[13], old[13], again[13];
	vbi_program_id pid = in.pid, got = in.got, got2 = in.got;
	unsigned int i;
	vbi_bool r;
	for (i = 0; i < 13; ++i) { buf[i] = old[i] = in.buf[i]; }

	r = vbi_encode_vps_pdc (buf, &pid);
	OBL (r == PRE_OK_encode_vps_pdc (&pid), "vps_pdc.encode accepts exactly in-range values");
	for (i = 0; i < 13; ++i) {
		if (r)
			OBL (((buf[i] ^ old[i]) & ~spec_vps_pdc_mask[i]) == 0,
			     "vps_pdc.encode changes only its field bits");
		else
			OBL (buf[i] == old[i], "vps_pdc.refused encode leaves buffer unmodified");
	}
	if (r) {
		OBL (vbi_decode_vps_pdc (&got, buf) == 1, "vps_pdc.decode succeeds");
		OBL (got.pil == pid.pil, "vps_pdc.pil round trip");
		OBL ((unsigned) got.pcs_audio == (unsigned) pid.pcs_audio, "vps_pdc.audio round trip");
		OBL (got.pty == pid.pty, "vps_pdc.pty round trip");
		OBL (pid.cni == 0x0DC3 || got.cni == pid.cni, "vps_pdc.cni round trip");
		OBL (pid.cni != 0x0DC3 || got.cni == ((buf[2] & 0x10) ? 0x0DC1 : 0x0DC2),
		     "vps_pdc.0xDC3 exception");
		OBL (got.channel == VBI_PID_CHANNEL_VPS && got.cni_type == VBI_CNI_TYPE_VPS
		     && got.mi == 1 && got.luf == 0 && got.prf == 0, "vps_pdc.fixed fields");
		CANARY ("vps_pdc accepted path");
	} else {
		CANARY ("vps_pdc refused path");
	}

	for (i = 0; i < 13; ++i) again[i] = old[i];
	vbi_decode_vps_pdc (&got2, old);
	if (SPEC_VPS_CNI_RAW (old) != 0x0DC3) {
		OBL (vbi_encode_vps_pdc (again, &got2) == 1, "vps_pdc.re-encode accepted");
		for (i = 0; i < 13; ++i)
			OBL (again[i] == old[i], "vps_pdc.encode(decode(buf)) reproduces buf");
	}
}

void h_lemma_dvb_pdc (void)
{
	DECL_INPUTS (in_dvb_pdc, in);
	uint8_t buf[5], old[5], again[5];
	vbi_program_id pid = in.pid, got = in.got, got_old = in.got, got2;
	unsigned int i;
	vbi_bool r, r2;
	for (i = 0; i < 5; ++i) { buf[i] = old[i] = in.buf[i]; }

	r = vbi_encode_dvb_pdc_descriptor (buf, &pid);
	OBL (r == (pid.pil <= 0xFFFFF), "dvb_pdc.encode accepts exactly 20-bit PILs");
	if (r) {
		OBL (buf[0] == 0x69 && buf[1] == 3 && (buf[2] & 0xF0) == 0xF0,
		     "dvb_pdc.tag, length, reserved bits per EN 300 468");
		OBL (vbi_decode_dvb_pdc_descriptor (&got, buf) == 1, "dvb_pdc.decode succeeds");
		OBL (got.pil == pid.pil, "dvb_pdc.pil round trip");
		OBL (got.channel == VBI_PID_CHANNEL_PDC_DESCRIPTOR && got.mi == 1,
		     "dvb_pdc.fixed fields");
		CANARY ("dvb_pdc accepted path");
	} else {
		for (i = 0; i < 5; ++i)
			OBL (buf[i] == old[i], "dvb_pdc.refused encode leaves buffer unmodified");
		CANARY ("dvb_pdc refused path");
	}

	/* decoder refuses a wrong tag/length and leaves *pid alone */
	got = got_old;
	r2 = vbi_decode_dvb_pdc_descriptor (&got, old);
	OBL (r2 == (old[0] == 0x69 && old[1] == 3), "dvb_pdc.decode accepts exactly tag 0x69 len 3");
	if (!r2) {
		OBL (0 == memcmp (&got, &got_old, sizeof (got)),
		     "dvb_pdc.refused decode leaves pid unmodified");
		CANARY ("dvb_pdc decode refused path");
	} else {
		for (i = 0; i < 5; ++i) again[i] = old[i];
		OBL (vbi_encode_dvb_pdc_descriptor (again, &got) == 1, "dvb_pdc.re-encode accepted");
		OBL (again[0] == old[0] && again[1] == old[1]
		     && (again[2] & 0x0F) == (old[2] & 0x0F)
		     && again[3] == old[3] && again[4] == old[4],
		     "dvb_pdc.encode(decode(buf)) reproduces the PIL bits");
	}
}
