/* C07 -- DVB demultiplexer, src/dvb_demux.c, the real code.
 *
 *  h_pes_header   valid_vbi_pes_packet_header / decode_timestamp against the
 *                 EN 300 472 / ISO 13818-1 header rules, all 48 byte headers
 *  h_ts_header    demux_ts_packet on one in-sync transport packet header:
 *                 PID filter, continuity counter rules, recovery after a
 *                 discontinuity (the expected counter is re-armed)
 *  h_pes_cut      (bounded, relational) demux_pes_packet on the same short
 *                 stream fed in one piece and cut at an arbitrary position:
 *                 identical demultiplexer state => the output depends on the
 *                 byte stream only
 */
#include "shim/verif.h"
#include "src/dvb_demux.h"

#ifdef NO_FRAME_EXTRACTION
/* In the transport packet header scenario no PES packet can complete, hence no
   data unit extraction may start: the callee is replaced by a contract whose
   precondition is FALSE, so that reaching the call is a failed obligation. */
static int demux_pes_packet_frame (vbi_dvb_demux *dx, const uint8_t **src, unsigned int *src_left)
CONTRACT (__CPROVER_requires (0) __CPROVER_assigns () __CPROVER_ensures (1));
#endif

#include "src/dvb_demux.c"

_vbi_log_hook _vbi_global_log;
void _vbi_log_printf (vbi_log_fn *log_fn, void *user_data, vbi_log_mask level,
		      const char *source_file, const char *context, const char *templ, ...)
{
}

static int cb_calls;
static vbi_bool
ghost_cb (vbi_dvb_demux *dx, void *user_data, const vbi_sliced *sliced, unsigned int n, int64_t pts)
{
	++cb_calls;
	return TRUE;
}

/* ------------------------------------------------------------------ PES header */
struct in_ph { uint8_t p[48]; int64_t old_pts; int new_frame; };

/* ISO 13818-1 2.4.3.7: '001x' PTS[32..30] marker PTS[29..15] marker PTS[14..0] marker */
static int64_t spec_pts (const uint8_t *q)
{
	return ((int64_t)((q[0] >> 1) & 7) << 30)
		| ((int64_t) q[1] << 22) | ((int64_t)(q[2] >> 1) << 15)
		| ((int64_t) q[3] << 7) | ((int64_t) q[4] >> 1);
}

void h_pes_header (void)
{
	DECL_INPUTS (in_ph, in);
	static vbi_dvb_demux dx;
	int has_pts, spec_ok;
	vbi_bool r;

	vbi_dvb_demux_reset (&dx);
	dx.packet_pts = in.old_pts;
	dx.new_frame = !!in.new_frame;
	r = valid_vbi_pes_packet_header (&dx, in.p);
	has_pts = (in.p[7] >> 6) >= 2;
	spec_ok = in.p[8] == 36				/* EN 300 472 4.2: PES_header_data_length 0x24 */
		&& ((in.p[45] >= 0x10 && in.p[45] <= 0x1F) || (in.p[45] >= 0x99 && in.p[45] <= 0x9B))
		&& (in.p[6] & 0xC0) == 0x80		/* '10' */
		&& (in.p[6] & 0x30) == 0		/* not scrambled */
		&& (in.p[6] & 0x04) != 0		/* data_alignment_indicator */
		&& (has_pts || !in.new_frame);		/* a frame starts with a PTS */
	OBL (!!r == spec_ok, "pesh.header accepted iff EN 300 472 header rules hold");
	if (r && has_pts)
		OBL (dx.packet_pts == spec_pts (in.p + 9), "pesh.PTS decoded per ISO 13818-1 (33 bits)");
	if (!has_pts)
		OBL (dx.packet_pts == in.old_pts, "pesh.no PTS field, PTS unchanged");
	OBL (dx.new_frame == !!in.new_frame, "pesh.header check does not touch the frame state");
	if (r) CANARY ("pesh ok"); else CANARY ("pesh bad");
}

/* ------------------------------------------------------------------ TS header */
struct in_ts { uint8_t h[10]; int continuity; unsigned int pes_todo, pid; int new_frame; };

void h_ts_header (void)
{
	DECL_INPUTS (in_ts, in);
	static vbi_dvb_demux dx;
	const uint8_t *src = in.h;
	unsigned int left = 10, cc, pid;
	int err, ours;

	vbi_dvb_demux_reset (&dx);
	dx.demux_packet = demux_ts_packet; dx.callback = ghost_cb;
	/* in sync, at a transport packet boundary */
	dx.ts_in_sync = TRUE;
	dx.ts_wrap.lookahead = TS_HEADER_LOOKAHEAD;
	dx.ts_pid = in.pid & 0x1FFF;
	ASSUME (in.continuity >= -1 && in.continuity <= 16);
	dx.ts_continuity = in.continuity;
#ifdef SEL_TODO	/* case split: bytes of the PES packet in progress still missing */
	in.pes_todo = SEL_TODO;
#endif
	ASSUME (in.pes_todo <= 65536 + 6);
	dx.ts_pes_todo = in.pes_todo;
	dx.ts_pes_bp = dx.pes_buffer;
	dx.new_frame = !!in.new_frame;
	ASSUME (in.h[0] == 0x47);

	err = demux_ts_packet (&dx, &src, &left);

	OBL (err == 0 && left == 0 && src == in.h + 10, "ts.all input consumed");
	OBL (cb_calls == 0, "ts.no frame delivered from a header alone");
	cc = in.h[3] & 15;
	pid = ((in.h[1] << 8) | in.h[2]) & 0x1FFF;
	ours = pid == dx.ts_pid && !(in.h[1] & 0x80);
	if (!ours && !(in.h[1] & 0x80)) {
		OBL (dx.ts_continuity == in.continuity && dx.ts_pes_todo == in.pes_todo
		     && dx.new_frame == !!in.new_frame, "ts.packets of other PIDs change nothing");
		OBL (dx.ts_wrap.skip == 178 && dx.ts_wrap.consume == 0, "ts.foreign packet skipped as a whole");
		CANARY ("ts foreign");
	}
	if (ours && (in.h[3] & 0xC0) == 0 && (in.h[3] & 0x30) == 0x10) {
		/* payload only, not scrambled: the continuity counter applies */
		if (in.continuity < 0 || ((in.continuity ^ cc) & 15) == 0) {
			OBL (((dx.ts_continuity ^ (cc + 1)) & 15) == 0, "ts.in-sequence packet advances the expected counter");
			CANARY ("ts in sequence");
		} else if ((((in.continuity - 1) ^ cc) & 15) == 0) {
			OBL (dx.ts_continuity == in.continuity && dx.ts_pes_todo == in.pes_todo
			     && dx.new_frame == !!in.new_frame && dx.ts_wrap.skip == 178,
			     "ts.repeated packet ignored");
			CANARY ("ts repeated");
		} else {
			OBL (dx.new_frame && dx.ts_pes_todo == 0 && dx.ts_wrap.consume == 0 && dx.ts_wrap.skip == 178,
			     "ts.lost packet: frame and PES packet in progress discarded");
			OBL (((dx.ts_continuity ^ (cc + 1)) & 15) == 0,
			     "ts.lost packet: expected counter re-armed so that the following packets are accepted");
			CANARY ("ts discontinuity");
		}
	}
	OBL (dx.ts_wrap.bp >= dx.ts_buffer && dx.ts_wrap.bp <= dx.ts_buffer + sizeof (dx.ts_buffer)
	     && dx.ts_wrap.lookahead >= 1 && dx.ts_wrap.lookahead <= TS_SYNC_SEARCH_LOOKAHEAD,
	     "ts.wrap state well formed");
}

/* ------------------------------------------------------------------ line_address */
struct in_la {
	unsigned int lofp, last_frame_line, last_field, last_field_line, last_data_unit_id, n_extracted;
	int system;
	unsigned int used;	/* records already in the frame */
};

void h_line_address (void)
{
	DECL_INPUTS (in_la, in);
	static struct frame f;
	static vbi_sliced sliced[4];
	vbi_sliced *sp = NULL;
	unsigned int field, line, off;
	int r;

	ASSUME (in.used <= 4 && in.lofp <= 255 && (in.system == SYSTEM_525 || in.system == SYSTEM_625));
	ASSUME (in.last_field <= 1 && in.last_frame_line <= 700);
	f.sliced_begin = sliced; f.sliced_end = sliced + 4; f.sp = sliced + in.used;
	f.last_frame_line = in.last_frame_line; f.last_field = in.last_field;
	f.last_field_line = in.last_field_line; f.last_data_unit_id = in.last_data_unit_id;
	f.n_data_units_extracted_from_packet = in.n_extracted;
	ASSUME (in.n_extracted < 1000);

	r = line_address (&f, &sp, NULL, in.lofp, in.system);

	/* EN 301 775 4.5.2: bit 5 field_parity ('1' = first field), bits 4..0 line_offset */
	field = (in.lofp & 0x20) ? 0 : 1;
	off = in.lofp & 31;
	line = off == 0 ? 0 : off + (field == 0 ? 0 : (in.system == SYSTEM_625 ? 313 : 263));
	if (in.used >= 4) {
		OBL (r == VBI_ERR_SLICED_BUFFER_OVERFLOW && f.sp == sliced + in.used, "la.full buffer refused, nothing allocated");
		return;
	}
	if (line != 0) {
		if (line <= in.last_frame_line) {
			/* a frame is recognisable by a non-increasing line number */
			if (in.n_extracted == 0)
				OBL (r == -1, "la.non-increasing line at the start of a packet starts a new frame");
			else
				OBL (r == VBI_ERR_DU_LINE_NUMBER, "la.non-increasing line inside a packet is an error");
			OBL (f.sp == sliced + in.used && f.last_frame_line == in.last_frame_line
			     && f.n_data_units_extracted_from_packet == in.n_extracted, "la.no slot allocated, state unchanged");
			CANARY ("la non-increasing");
		} else {
			OBL (r == 0 && sp == sliced + in.used && sp->line == line, "la.slot allocated with the frame line number");
			OBL (f.last_frame_line == line && f.last_field == field && f.last_field_line == off
			     && f.n_data_units_extracted_from_packet == in.n_extracted + 1, "la.position recorded");
			CANARY ("la ok");
		}
	} else if (r == 0) {
		OBL (sp == sliced + in.used && sp->line == 0 && f.last_frame_line == in.last_frame_line,
		     "la.undefined line gets line 0 and leaves the last line number");
		CANARY ("la undefined");
	}
	OBL (r == 0 || f.sp == sliced + in.used, "la.failure allocates nothing");
}

/* ------------------------------------------------------------------ one Teletext data unit */
struct in_du { uint8_t u[46]; unsigned int last_frame_line, n_extracted; };

void h_du_teletext (void)
{
	DECL_INPUTS (in_du, in);
	static struct frame f;
	static vbi_sliced sliced[2];
	const uint8_t *src = in.u;
	unsigned int left = 46, i, gi, off, field, line;
	int r;

	f.sliced_begin = sliced; f.sliced_end = sliced + 2; f.sp = sliced;
	ASSUME (in.last_frame_line <= 700 && in.n_extracted < 1000);
	f.last_frame_line = in.last_frame_line; f.n_data_units_extracted_from_packet = in.n_extracted;
	in.u[0] = DATA_UNIT_EBU_TELETEXT_NON_SUBTITLE; in.u[1] = 44;
	r = extract_data_units (&f, &src, &left);
	off = in.u[2] & 31; field = (in.u[2] & 0x20) ? 0 : 1;
	line = off == 0 ? 0 : off + (field ? 313 : 0);
	if (r == 0 && f.sp == sliced + 1) {
		gi = nondet_uint (); ASSUME (gi < 42);	/* ghost index: an arbitrary payload byte */
		OBL (sliced[0].id == VBI_SLICED_TELETEXT_B && sliced[0].line == line, "du.Teletext line carries service and line of the data unit");
		OBL (sliced[0].data[gi] == vbi_rev8 (in.u[4 + gi]), "du.payload bits in transmission order");
		OBL (in.u[3] == 0xE4 && (off == 0 || (off >= 7 && off <= 22)), "du.only standard framing code and lines 7-22 accepted");
		OBL (src == in.u + 46 && left == 0, "du.whole unit consumed");
		CANARY ("du ok");
	} else {
		OBL (f.sp == sliced, "du.a refused data unit leaves no record");
		if (r != 0 && r != -1)
			OBL (src == in.u && left == 46, "du.on error the cursor stays at the offending unit");
		CANARY ("du refused");
	}
	(void) i;
}

/* ------------------------------------------------------------------ wrap_around (ghost logical stream) */
#ifndef WR_BUF
#define WR_BUF 12	/* wrap buffer size */
#define WR_SRC 10	/* longest source buffer */
#define WR_LA 6		/* largest lookahead */
#endif
struct in_wr {
	uint8_t stream[WR_BUF + WR_SRC];	/* logical stream; the source buffer starts at WR_BUF, the kept
						   bytes are the `leftover' bytes before the read position */
	unsigned int leftover, skip, lookahead, src_size, consumed, bpoff;
};

void h_wrap_around (void)
{
	DECL_INPUTS (in_wr, in);
	static struct wrap w;
	static uint8_t buffer[WR_BUF];
	uint8_t srcbuf[WR_SRC];
	const uint8_t *dst = NULL, *scan_end = NULL, *src;
	unsigned int src_left, i, gi, pos;
	vbi_bool r;

	/* representation invariant of a wrap context + relation to the logical stream:
	   the kept bytes are the `leftover' stream bytes before the source buffer */
	ASSUME (in.lookahead >= 1 && in.lookahead <= WR_LA && in.leftover <= WR_LA);
	ASSUME (in.src_size >= 1 && in.src_size <= WR_SRC && in.consumed <= in.src_size);
	ASSUME (in.skip <= 40);
	ASSUME (in.bpoff >= in.leftover && in.bpoff <= WR_BUF);
	/* leftover bytes beyond what was read from this source buffer come from the wrap buffer;
	   (when leftover <= consumed they are also present before *src, which the no-copy path uses) */
	w.buffer = buffer; w.bp = buffer + in.bpoff; w.leftover = in.leftover;
	w.skip = in.skip; w.lookahead = in.lookahead; w.consume = 0;
	for (i = 0; i < WR_BUF; ++i)
		if (i < in.leftover)
			buffer[in.bpoff - 1 - i] = in.stream[WR_BUF + in.consumed - 1 - i];
	for (i = 0; i < WR_SRC; ++i)
		srcbuf[i] = (i < in.src_size) ? in.stream[WR_BUF + i] : 0;
	/* the source buffer: src_size bytes, `consumed' of them already read */
	src = srcbuf + in.consumed; src_left = in.src_size - in.consumed;
	/* (documented precondition of the no-copy path: the bytes of this source buffer
	   before *src are still in place -- true by construction: srcbuf holds the stream) */
	/* kept bytes were read from the stream before position `consumed' of this buffer */
	pos = WR_BUF + in.consumed - in.leftover;	/* logical position of the first unconsumed byte */

	r = wrap_around (&w, &dst, &scan_end, &src, &src_left, in.src_size);

	OBL (w.bp >= buffer && w.bp <= buffer + WR_BUF && w.leftover <= (unsigned int)(w.bp - buffer),
	     "wrap.kept bytes lie inside the wrap buffer");
	OBL (src >= srcbuf && src + src_left == srcbuf + in.src_size, "wrap.source cursor stays inside the source buffer");
	if (r) {
		unsigned int newpos = pos + in.skip;	/* skipped bytes are gone */
		OBL (w.skip == 0, "wrap.skip fully applied");
		OBL (scan_end >= dst, "wrap.scan range not negative");
		gi = nondet_uint (); ASSUME (gi < in.lookahead + (unsigned int)(scan_end - dst));
		OBL (newpos + gi < WR_BUF + in.src_size, "wrap.window lies inside the data received so far");
		OBL (dst[gi] == in.stream[newpos + gi], "wrap.window shows the logical stream at the scan position");
		CANARY ("wrap window");
	} else {
		OBL (src_left == 0, "wrap.more data needed only when the source is exhausted");
		CANARY ("wrap need more");
	}
}

/* ------------------------------------------------------------------ PES cut (relational, bounded) */
#ifndef CUT_N
#define CUT_N 56
#endif
struct in_cut { uint8_t s[CUT_N]; unsigned int n, k; };

static vbi_dvb_demux dxa, dxb;

void h_pes_cut (void)
{
	DECL_INPUTS (in_cut, in);
	const uint8_t *p; unsigned int left, i;
	unsigned long posa, posb;

	ASSUME (in.n <= CUT_N && in.k <= in.n);
	vbi_dvb_demux_reset (&dxa); dxa.demux_packet = demux_pes_packet; dxa.callback = ghost_cb;
	vbi_dvb_demux_reset (&dxb); dxb.demux_packet = demux_pes_packet; dxb.callback = ghost_cb;

	/* A: one piece */
	p = in.s; left = in.n;
	if (left > 0) demux_pes_packet (&dxa, &p, &left);
	/* B: cut at k */
	p = in.s; left = in.k;
	if (left > 0) demux_pes_packet (&dxb, &p, &left);
	p = in.s + in.k; left = in.n - in.k;
	if (left > 0) demux_pes_packet (&dxb, &p, &left);

	/* logical position at which scanning resumes: bytes consumed (= n in both
	   runs) - leftover + skip */
	posa = (unsigned long) in.n - dxa.pes_wrap.leftover + dxa.pes_wrap.skip;
	posb = (unsigned long) in.n - dxb.pes_wrap.leftover + dxb.pes_wrap.skip;
	OBL (posa == posb, "cut.scan position independent of the partition");
	OBL (dxa.pes_wrap.lookahead == dxb.pes_wrap.lookahead, "cut.lookahead independent of the partition");
	OBL (dxa.new_frame == dxb.new_frame && dxa.packet_pts == dxb.packet_pts, "cut.frame state independent of the partition");
	OBL (dxa.pes_wrap.leftover <= in.n && dxb.pes_wrap.leftover <= in.n, "cut.leftover bounded by the input");
	/* leftover bytes of B are the last bytes of the stream */
	for (i = 0; i < CUT_N; ++i)
		if (i < dxb.pes_wrap.leftover)
			OBL (dxb.pes_wrap.bp[-1 - (int) i] == in.s[in.n - 1 - i], "cut.kept bytes are the tail of the stream");
	if (dxa.pes_wrap.skip > 0) CANARY ("cut skipping");
	if (in.k > 0 && in.k < in.n && in.n == CUT_N) CANARY ("cut inner");
}
