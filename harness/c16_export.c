/* C16 -- the write layer of src/export.c, the real code: every export
 * module produces its output through vbi_export_putc / _write / _puts /
 * _printf, and the four targets (caller buffer, allocated buffer, stdio,
 * file) differ only in this layer.  Contract of the layer, over the buffer
 * view (data[0 .. offset) of capacity bytes):
 *    a successful write appends exactly the given bytes, keeps the prefix,
 *    never stores outside data[0 .. capacity) -- in particular never past the
 *    caller's buffer_size -- and when the caller's buffer is too small the
 *    layer switches to a heap buffer carrying the same prefix, so that the
 *    size actually needed can be reported.
 * _vbi_grow_vector_capacity (misc.c) and vsnprintf are replaced by stubs with
 * ASSUMED contracts (realloc semantics; C99 vsnprintf semantics over a ghost
 * text).  BOUNDED by the sizes of the ghost buffers (<= 16 bytes).
 */
#include <stddef.h>
#include <stdint.h>
#include <stdlib.h>
#include <string.h>
#include <stdio.h>
#include <stdarg.h>
#include "shim/verif.h"

#define GT 6	/* longest ghost text / source */
static char g_text[GT]; static int g_text_len; static int g_vsn_fail;
static int g_grow_fails; static size_t g_grow_extra;

static int verif_vsnprintf (char *dst, size_t avail, const char *templ, va_list ap)
{
	size_t k;

	if (avail == 511) {	/* vbi_export_error_printf formatting its message: not the subject */
		dst[0] = 0;
		return 0;
	}
	if (g_vsn_fail)
		return -1;	/* pre-C99 behaviour the code provides for */
	/* C99: stores min (len, avail-1) characters and a NUL when avail > 0; returns len */
	for (k = 0; k < GT; ++k)
		if (k < (size_t) g_text_len && avail > 0 && k < avail - 1)
			dst[k] = g_text[k];
	if (avail > 0)
		dst[((size_t) g_text_len < avail - 1) ? (size_t) g_text_len : avail - 1] = 0;
	return g_text_len;
}

/* error message duplication is not the subject: constant time ghost strdup */
static char *verif_strdup (const char *s) { char *p = malloc (1); if (p) p[0] = 0; return p; }

#define vsnprintf verif_vsnprintf
#define strdup verif_strdup
#include "src/export.c"
#undef vsnprintf
#undef strdup

/* misc.c: realloc semantics */
vbi_bool
_vbi_grow_vector_capacity (void **vector, size_t *capacity, size_t min_capacity, size_t element_size)
{
	char *n; size_t cap, k;

	if (g_grow_fails)
		return FALSE;
	ASSUME (g_grow_extra <= 4);
	cap = min_capacity + g_grow_extra;
	ASSUME (cap <= 32);
	n = malloc (cap);
	ASSUME (n != NULL);
	for (k = 0; k < 32; ++k)
		if (k < *capacity && k < cap)
			n[k] = ((char *) *vector)[k];
	free (*vector);
	*vector = n; *capacity = cap;
	return TRUE;
}

/* message catalogue lookup: returns the untranslated text (assumed) */
char *dgettext (const char *domain, const char *msgid) { return (char *) msgid; }

_vbi_log_hook _vbi_global_log;
void _vbi_log_printf (vbi_log_fn *log_fn, void *user_data, vbi_log_mask level,
		      const char *source_file, const char *context, const char *templ, ...)
{
}

struct in_ex {
	unsigned int capacity, offset, n;
	char old[16], src[GT];
	int target_mem, vsn_fail, grow_fails; unsigned int grow_extra;
	int op;
};

#ifndef SEL_OP
#define SEL_OP 0	/* 0 write, 1 putc, 2 printf */
#endif

void h_export_write (void)
{
	DECL_INPUTS (in_ex, in);
	static vbi_export e;
	char *buf, *caller_buf;
	unsigned int k, gi, gj;
	vbi_bool r;

	ASSUME (in.capacity <= 16 && in.offset <= in.capacity && in.n <= GT);
	caller_buf = buf = malloc (in.capacity ? in.capacity : 1);	/* exactly the stated size */
	ASSUME (buf != NULL);
	for (k = 0; k < 16; ++k)
		if (k < in.offset)
			buf[k] = in.old[k];
	e.target = in.target_mem ? VBI_EXPORT_TARGET_MEM : VBI_EXPORT_TARGET_ALLOC;
	e.buffer.data = buf; e.buffer.capacity = in.capacity; e.buffer.offset = in.offset;
	e.write_error = FALSE;
	g_grow_fails = !!in.grow_fails; g_grow_extra = in.grow_extra; g_vsn_fail = !!in.vsn_fail;
	for (k = 0; k < GT; ++k) g_text[k] = in.src[k];
	g_text_len = in.n;

#if SEL_OP == 0
	r = vbi_export_write (&e, in.src, in.n);
#elif SEL_OP == 1
	in.n = 1;
	r = vbi_export_putc (&e, in.src[0]);
#else
	ASSUME (!in.vsn_fail);	/* pre-C99 vsnprintf: see level_note */
	ASSUME (!in.grow_fails);	/* allocation failure paths are covered by the write/putc jobs */
	r = vbi_export_printf (&e, "%s", "ignored by the ghost vsnprintf");
#endif
	if (r) {
		OBL (e.buffer.offset == in.offset + in.n && e.buffer.offset <= e.buffer.capacity,
		     "exp.a successful write advances the offset by exactly the bytes written");
		gi = nondet_uint (); ASSUME (gi < in.n);
		OBL (e.buffer.data[in.offset + gi] == in.src[gi], "exp.the bytes written are the bytes given");
		gj = nondet_uint (); ASSUME (gj < in.offset);
		OBL (e.buffer.data[gj] == in.old[gj], "exp.earlier output is kept");
		if (in.target_mem && in.offset + in.n <= in.capacity && SEL_OP != 2)
			OBL (e.buffer.data == caller_buf && e.target == VBI_EXPORT_TARGET_MEM,
			     "exp.output that fits stays in the caller's buffer");
		if (e.buffer.data != caller_buf)
			OBL (!in.target_mem || e.target == VBI_EXPORT_TARGET_ALLOC,
			     "exp.overflow of the caller's buffer switches to an allocated buffer (needed size is reported)");
		CANARY ("exp ok");
	} else {
		OBL (e.write_error || in.vsn_fail, "exp.failure is sticky");
#if SEL_OP != 2	/* the printf case excludes allocation failures */
		CANARY ("exp failed");
#endif
	}
	/* the caller's buffer is the caller's; a reallocated heap buffer was released by realloc */
	if (e.buffer.data != caller_buf) {
		free (e.buffer.data);
		if (in.target_mem) free (caller_buf);
	} else
		free (caller_buf);
}
