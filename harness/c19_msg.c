/* C19 -- proxy message layer, src/proxy-msg.c, the real code.
 *
 * recv/send/close/time are external (sockets): replaced by stubs with ASSUMED
 * contracts: recv (fd, buf, n) returns -1, 0 or 1..n and stores that many
 * arbitrary bytes at buf; the stub CHECKS, as the callee's precondition, that
 * buf[0..n) lies inside the read buffer the caller provided (so a length
 * computed from client data that leaves the buffer is a failed obligation).
 *
 *  h_handle_read  vbi_proxy_msg_handle_read from every I/O state in the
 *                 representation invariant, every header a client can send:
 *                 no abort, no write outside the message buffer, illegal
 *                 lengths refused, readOff <= readLen <= max afterwards
 *  h_partial      the daemon's sequence handle_read; is_idle after a partial
 *                 message: no abort, reported as not idle
 *  h_close_io     vbi_proxy_msg_close_io frees the write buffer iff the I/O
 *                 handler owns it
 */
#include <stddef.h>
#include <stdint.h>
#include <stdlib.h>
#include <string.h>
#include <time.h>
#include <errno.h>
#include <sys/types.h>
#include <sys/socket.h>
#include <unistd.h>
#include <assert.h>
#include "shim/verif.h"

#define RBUF 992		/* sizeof (VBIPROXY_MSG), checked below */

struct net_choices { long ret[2]; int err[2]; uint8_t data[16]; };
static struct net_choices net;
static int net_calls;
static char *g_rbuf; static size_t g_rbuf_size;
static int g_free_calls; static void *g_freed;

static ssize_t verif_recv (int fd, void *buf, size_t n, int flags)
{
	long r; size_t k;
	int i = net_calls++;

	ASSUME (i < 2);
	/* precondition of recv: the destination range is writable memory of the caller's buffer */
	OBL ((char *) buf >= g_rbuf && (size_t)((char *) buf - g_rbuf) <= g_rbuf_size
	     && n <= g_rbuf_size - (size_t)((char *) buf - g_rbuf),
	     "msg.recv destination stays inside the message buffer");
	r = net.ret[i];
	ASSUME (r >= -1 && (r < 0 || (size_t) r <= n));
	if (r < 0) { errno = net.err[i]; return -1; }
	for (k = 0; k < 16; ++k)
		if (k < (size_t) r && (size_t)((char *) buf - g_rbuf) + k < g_rbuf_size)
			((uint8_t *) buf)[k] = net.data[k];
	return r;
}
static ssize_t verif_send (int fd, const void *buf, size_t n, int flags) { return -1; }
static int verif_close (int fd) { return 0; }
static time_t verif_time (time_t *t) { return 1000; }
static void verif_free (void *p) { ++g_free_calls; g_freed = p; free (p); }

#define recv verif_recv
#define send verif_send
#define close verif_close
#define time verif_time
#define free verif_free
#include "src/proxy-msg.c"
#undef recv
#undef send
#undef close
#undef time
#undef free

struct in_hr {
	struct net_choices net;
	unsigned int readOff, readLen;
	int close_on_zero;
};

#define HDR sizeof (VBIPROXY_MSG_HEADER)

void h_handle_read (void)
{
	DECL_INPUTS (in_hr, in);
	static VBIPROXY_MSG_STATE io;
	VBIPROXY_MSG *msg;
	vbi_bool blocked = FALSE, r;

	OBL (sizeof (VBIPROXY_MSG) == RBUF, "msg.harness constant matches sizeof (VBIPROXY_MSG)");
	msg = malloc (sizeof (VBIPROXY_MSG));
	ASSUME (msg != NULL);
	g_rbuf = (char *) msg; g_rbuf_size = sizeof (VBIPROXY_MSG);
	net = in.net; net_calls = 0;
	/* representation invariant of the read state */
	io.sock_fd = 5; io.writeLen = 0; io.writeOff = 0; io.pWriteBuf = NULL; io.freeWriteBuf = FALSE;
	io.readOff = in.readOff; io.readLen = in.readLen;
	ASSUME ((in.readOff < HDR && in.readLen == 0)
		|| (in.readOff >= HDR && in.readLen >= HDR && in.readLen <= sizeof (VBIPROXY_MSG) && in.readOff < in.readLen));
	if (in.readOff >= HDR) { msg->head.len = in.readLen; }

	r = vbi_proxy_msg_handle_read (&io, &blocked, !!in.close_on_zero, msg, sizeof (VBIPROXY_MSG));

	if (r) {
		OBL ((io.readOff < HDR && io.readLen == 0)
		     || (io.readOff >= HDR && io.readLen >= HDR && io.readLen <= sizeof (VBIPROXY_MSG) && io.readOff <= io.readLen),
		     "msg.read state stays in its invariant: readOff <= readLen <= buffer size");
		if (io.readOff >= HDR && io.readOff == io.readLen)
			CANARY ("read complete");
		else
			CANARY ("read partial");
	} else {
		CANARY ("read refused");
	}
	if (in.readOff < HDR && net.ret[0] > 0 && in.readOff + net.ret[0] >= HDR) {
		uint32_t len = ntohl (*(uint32_t *) ((char *) &net.data[0] + 0));
		(void) len;
	}
	free (msg);
}

/* illegal length fields are refused */
void h_illegal_len (void)
{
	DECL_INPUTS (in_hr, in);
	static VBIPROXY_MSG_STATE io;
	VBIPROXY_MSG *msg;
	vbi_bool blocked = FALSE, r;
	uint32_t len;

	msg = malloc (sizeof (VBIPROXY_MSG));
	ASSUME (msg != NULL);
	g_rbuf = (char *) msg; g_rbuf_size = sizeof (VBIPROXY_MSG);
	net = in.net; net_calls = 0;
	io.sock_fd = 5; io.writeLen = 0; io.readOff = 0; io.readLen = 0;
	ASSUME (net.ret[0] == (long) HDR);		/* the whole header arrives at once */
	len = ((uint32_t) net.data[0] << 24) | ((uint32_t) net.data[1] << 16) | ((uint32_t) net.data[2] << 8) | net.data[3];
	r = vbi_proxy_msg_handle_read (&io, &blocked, TRUE, msg, sizeof (VBIPROXY_MSG));
	if (len < HDR || len > sizeof (VBIPROXY_MSG)) {
		OBL (!r, "msg.a length field outside [header, buffer size] is a protocol error");
		OBL (net_calls == 1, "msg.nothing more is read after an illegal length");
		CANARY ("illegal len");
	} else {
		CANARY ("legal len");
	}
	free (msg);
}

/* the daemon's sequence in vbi_proxyd_handle_client_sockets: handle_read, then is_idle */
void h_partial (void)
{
	DECL_INPUTS (in_hr, in);
	static VBIPROXY_MSG_STATE io;
	VBIPROXY_MSG *msg;
	vbi_bool blocked = FALSE, r;

	msg = malloc (sizeof (VBIPROXY_MSG));
	ASSUME (msg != NULL);
	g_rbuf = (char *) msg; g_rbuf_size = sizeof (VBIPROXY_MSG);
	net = in.net; net_calls = 0;
	io.sock_fd = 5; io.writeLen = 0; io.readOff = 0; io.readLen = 0;
	r = vbi_proxy_msg_handle_read (&io, &blocked, TRUE, msg, sizeof (VBIPROXY_MSG));
	if (r) {
		vbi_bool idle = vbi_proxy_msg_is_idle (&io);
		vbi_bool ridle = vbi_proxy_msg_read_idle (&io);
		if (io.readOff != 0) {
			OBL (!idle && !ridle, "msg.a connection with a partly or completely received message is not idle");
			if (io.readOff < io.readLen || io.readOff < HDR) CANARY ("partial message");
		} else
			OBL (idle && ridle, "msg.nothing received: idle");
		(void) vbi_proxy_msg_check_timeout (&io, 5000);
	}
	free (msg);
}

struct in_cl { int own, has; };
void h_close_io (void)
{
	DECL_INPUTS (in_cl, in);
	static VBIPROXY_MSG_STATE io;
	static VBIPROXY_MSG static_msg;		/* a reply queued from a buffer the caller owns */
	VBIPROXY_MSG *heap = NULL;

	io.sock_fd = 5; g_free_calls = 0;
	if (in.has) {
		if (in.own) { heap = malloc (sizeof (VBIPROXY_MSG)); ASSUME (heap != NULL); io.pWriteBuf = heap; }
		else io.pWriteBuf = &static_msg;
		io.freeWriteBuf = !!in.own; io.writeLen = 16;
	} else { io.pWriteBuf = NULL; io.freeWriteBuf = FALSE; }
	vbi_proxy_msg_close_io (&io);
	OBL (io.sock_fd == -1 && io.pWriteBuf == NULL, "close.socket closed and write buffer detached");
	OBL (g_free_calls == ((in.has && in.own) ? 1 : 0), "close.the write buffer is freed iff the I/O handler owns it");
	if (in.has && in.own) OBL (g_freed == heap, "close.the owned buffer is the one freed");
	CANARY ("close");
}
