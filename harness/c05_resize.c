/* C05 -- coupling between the public vbi_raw_decoder sampling parameters
 * (which size the caller's image and sliced array: vbi_raw_decode passes
 * count[0]+count[1] as max_lines) and the internal vbi3_raw_decoder that
 * walks the image.  Real code: src/decoder.c vbi_raw_decoder_resize,
 * vbi_raw_decode.  Invariant
 *     I(rd) == rd3 decodes nothing (no services)
 *              or rd3's start/count/bytes_per_line/interlaced == rd's
 * must hold after vbi_raw_decoder_resize from any state satisfying it.
 * vbi3_raw_decoder_set_sampling_par is replaced by its contract (from its
 * body in raw_decoder.c: sampling := *sp if valid, else cleared and no
 * services) -- an ASSUMED contract, listed in the trusted base.
 */
#include "shim/verif.h"
#include "src/decoder.c"

static struct { vbi_sampling_par sampling; vbi_service_set services; int calls; } g3;
static _Bool g_valid; static vbi_service_set g_services_after;

vbi_service_set
vbi3_raw_decoder_set_sampling_par (vbi3_raw_decoder *rd, const vbi_sampling_par *sp, int strict)
{
	++g3.calls;
	if (g_valid) {
		g3.sampling = *sp;
		g3.services = g_services_after;
	} else {
		memset (&g3.sampling, 0, sizeof (g3.sampling));
		g3.services = 0;
	}
	return g3.services;
}

#define COUPLED(rd) (g3.services == 0 \
	|| (g3.sampling.start[0] == (rd)->start[0] && g3.sampling.start[1] == (rd)->start[1] \
	    && g3.sampling.count[0] == (rd)->count[0] && g3.sampling.count[1] == (rd)->count[1] \
	    && g3.sampling.bytes_per_line == (rd)->bytes_per_line \
	    && g3.sampling.interlaced == (rd)->interlaced))

struct in_rs {
	vbi_raw_decoder rd;
	vbi_sampling_par s3; vbi_service_set services3;
	int start[2]; unsigned int count[2];
	_Bool valid; vbi_service_set services_after;
};

void h_resize (void)
{
	DECL_INPUTS (in_rs, in);
	static vbi_raw_decoder rd;
	static int dummy_rd3;

	rd = in.rd;
	rd.pattern = (int8_t *) &dummy_rd3;	/* opaque handle of the internal decoder */
	memset (&rd.mutex, 0, sizeof (rd.mutex));
	g3.sampling = in.s3; g3.services = in.services3; g3.calls = 0;
	g_valid = in.valid; g_services_after = in.services_after;
	ASSUME (COUPLED (&rd));
	ASSUME (in.count[0] <= 0x7fffffff && in.count[1] <= 0x7fffffff);

	vbi_raw_decoder_resize (&rd, in.start, in.count);

	OBL (rd.start[0] == in.start[0] && rd.start[1] == in.start[1]
	     && rd.count[0] == (int) in.count[0] && rd.count[1] == (int) in.count[1],
	     "resize.public parameters take the requested geometry");
	OBL (COUPLED (&rd), "resize.internal decoder walks exactly the image the public parameters describe");
	if (g3.calls) CANARY ("resize rebuilt"); else CANARY ("resize unchanged");
}
