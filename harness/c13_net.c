/* C13 (and C01) -- vbi_decode_vps() and parse_bsd() of src/packet.c, the
 * real code.  Event delivery and the channel switch are ghost recorders;
 * station_lookup() is replaced by an assumed pure-function contract; the VPS
 * field decoders are the real vps.c (proved in C12).
 */
#include "contracts/net.h"
#include "contracts/hamm_spec.h"
#include "src/vbi.h"
#include "src/vps.h"

static int ev_n, ev_net_n, ev_netid_n, ev_pid_n, chsw_n;
static unsigned chsw_id;
static vbi_network ev_net;
static vbi_program_id ev_pid;

void
vbi_send_event (vbi_decoder *v, vbi_event *ev)
{
	++ev_n;
	if (ev->type == VBI_EVENT_NETWORK) { ++ev_net_n; ev_net = ev->ev.network; }
	else if (ev->type == VBI_EVENT_NETWORK_ID) { ++ev_netid_n; ev_net = ev->ev.network; }
	else if (ev->type == VBI_EVENT_PROG_ID) { ++ev_pid_n; }
}
void vbi_chsw_reset (vbi_decoder *v, vbi_nuid id) { ++chsw_n; chsw_id = id; }

/* strlcpy replaced by its contract: writes at most size bytes at dst (the
   copied name is not observed by any obligation; byte-wise writes into the
   event union cost CBMC seconds each) */
size_t
_vbi_strlcpy (char *dst, const char *src, size_t size)
{
#ifndef ZVBI_REPLAY
	__CPROVER_assert (__CPROVER_w_ok (dst, size), "strlcpy destination writable for size bytes");
	__CPROVER_assert (__CPROVER_r_ok (src, 1), "strlcpy source readable");
	__CPROVER_havoc_slice (dst, size);
	return nondet_size_t ();
#else
	size_t i;
	for (i = 0; i + 1 < size && src[i]; ++i) dst[i] = src[i];
	if (size > 0) dst[i] = 0;
	return i;
#endif
}

#ifndef ZVBI_REPLAY
static unsigned int
station_lookup (vbi_cni_type type, int cni, const char **country, const char **name)
__CPROVER_requires (__CPROVER_w_ok (country, sizeof (*country)) && __CPROVER_w_ok (name, sizeof (*name)))
__CPROVER_assigns (*country, *name)
__CPROVER_ensures (__CPROVER_return_value == GHOST_ID (type, cni))
__CPROVER_ensures (__CPROVER_return_value == 0 || (*name == ghost_name && *country == ghost_name));
#endif

#include "src/hamm.c"
#include "src/vps.c"
#include "src/packet-830.c"
#include "src/packet.c"

static vbi_decoder vbi;

struct in_vps {
	uint8_t a[13], b[13];
	int cni_vps, cycle; unsigned nuid; int event_mask;
	vbi_program_id old_pid;
	int gk; unsigned gv1, gv2;
};
#define GHOST_SETUP(in) do { ghost_k = (in).gk; ghost_v1 = (in).gv1; ghost_v2 = (in).gv2; } while (0)

#define PID_EQ(a, b) ((a).channel == (b).channel && (a).cni_type == (b).cni_type && (a).cni == (b).cni \
	&& (a).pil == (b).pil && (a).luf == (b).luf && (a).mi == (b).mi && (a).prf == (b).prf \
	&& (a).pcs_audio == (b).pcs_audio && (a).pty == (b).pty && (a).tape_delayed == (b).tape_delayed)
static void clear_log (void) { ev_n = ev_net_n = ev_netid_n = ev_pid_n = chsw_n = 0; }

/* one call, any state */
void h_vps (void)
{
	DECL_INPUTS (in_vps, in);
	vbi_network *n = &vbi.network.ev.network;
	unsigned cni, id;
	vbi_program_id pid; vbi_bool pid_ok;
	uint8_t buf[13];
	unsigned i;

	GHOST_SETUP (in);
	for (i = 0; i < 13; ++i) buf[i] = in.a[i];
	n->cni_vps = in.cni_vps; n->cycle = in.cycle; n->nuid = in.nuid;
	vbi.event_mask = in.event_mask; vbi.vps_pid = in.old_pid;
	ASSUME (in.cni_vps >= 0 && in.cni_vps <= 0xFFF);
	clear_log ();
	vbi_decode_vps_cni (&cni, buf);
	memset (&pid, 0, sizeof (pid));
	pid_ok = vbi_decode_vps_pdc (&pid, buf);
	id = GHOST_ID (VBI_CNI_TYPE_VPS, cni);

	vbi_decode_vps (&vbi, buf);

	for (i = 0; i < 13; ++i) OBL (buf[i] == in.a[i], "vps.input not modified");
	if (cni != (unsigned) in.cni_vps) {
		OBL (ev_n == 0 && chsw_n == 0, "vps.first reception of an identifier announces nothing and resets nothing");
		OBL (n->cni_vps == (int) cni && n->cycle == 1 && n->nuid == in.nuid, "vps.first reception is remembered for confirmation");
		CANARY ("vps new cni");
	} else if (in.cycle == 1) {
		OBL (ev_net_n == (id != in.nuid), "vps.network event iff the confirmed station differs from the current one");
		OBL (chsw_n == (id != in.nuid && in.nuid != 0) && (chsw_n == 0 || chsw_id == id),
		     "vps.cache dropped iff a known station changed");
		OBL (ev_netid_n == 1, "vps.confirmed identifier announced once");
		OBL (n->nuid == id && n->cycle == 2 && n->cni_vps == (int) cni, "vps.station recorded, confirmation closed");
		OBL (ev_net.cni_vps == (int) cni && ev_net.nuid == id, "vps.event carries the transmitted CNI and its station");
		if (ev_pid_n) {
			OBL (in.event_mask & VBI_EVENT_PROG_ID, "vps.programme id only when requested");
			OBL (pid_ok && 0 == memcmp (&pid, &in.old_pid, sizeof (pid)), "vps.programme id announced only when received twice");
			/* payload not compared: CBMC 6.11 returns garbage when it reads the
			   pointer member of the event union back (checked in the trace);
			   the payload is the local decode of the same 13 bytes */
			CANARY ("vps pid event");
		}
		CANARY ("vps confirm");
	} else {
		OBL (ev_n == 0 && chsw_n == 0, "vps.identifier that keeps arriving is not announced again");
		OBL (n->nuid == in.nuid && n->cycle == in.cycle && n->cni_vps == in.cni_vps, "vps.repeat changes nothing");
		CANARY ("vps repeat");
	}
	CANARY ("vps end");
}

/* three calls: A established; then B (one deviating line), A, A */
void h_vps_deviation (void)
{
	DECL_INPUTS (in_vps, in);
	vbi_network *n = &vbi.network.ev.network;
	unsigned cni_a, cni_b;
	uint8_t a[13], b[13];
	unsigned i;

	GHOST_SETUP (in);
	for (i = 0; i < 13; ++i) { a[i] = in.a[i]; b[i] = in.b[i]; }
	vbi_decode_vps_cni (&cni_a, a);
	vbi_decode_vps_cni (&cni_b, b);
	ASSUME (cni_a != cni_b);
	/* station A has been announced */
	n->cni_vps = cni_a; n->cycle = 2; n->nuid = GHOST_ID (VBI_CNI_TYPE_VPS, cni_a);
	vbi.event_mask = in.event_mask; vbi.vps_pid = in.old_pid;
	clear_log ();
	vbi_decode_vps (&vbi, b);
	vbi_decode_vps (&vbi, a);
	vbi_decode_vps (&vbi, a);
	OBL (ev_net_n == 0, "vps.one deviating line between identical ones raises no network event");
	OBL (chsw_n == 0, "vps.one deviating line between identical ones does not drop the cache");
	OBL (n->nuid == GHOST_ID (VBI_CNI_TYPE_VPS, cni_a) && n->cni_vps == (int) cni_a, "vps.station unchanged after the deviation");
	CANARY ("vps deviation end");
}

/* station really changes: A established, then B, B, B ... */
void h_vps_change (void)
{
	DECL_INPUTS (in_vps, in);
	vbi_network *n = &vbi.network.ev.network;
	unsigned cni_a, cni_b, id_a, id_b;
	uint8_t a[13], b[13];
	unsigned i;

	GHOST_SETUP (in);
	for (i = 0; i < 13; ++i) { a[i] = in.a[i]; b[i] = in.b[i]; }
	vbi_decode_vps_cni (&cni_a, a);
	vbi_decode_vps_cni (&cni_b, b);
	id_a = GHOST_ID (VBI_CNI_TYPE_VPS, cni_a); id_b = GHOST_ID (VBI_CNI_TYPE_VPS, cni_b);
	ASSUME (cni_a != cni_b && id_a != id_b && id_a != 0);
	n->cni_vps = cni_a; n->cycle = 2; n->nuid = id_a;
	vbi.event_mask = in.event_mask; vbi.vps_pid = in.old_pid;
	clear_log ();
	vbi_decode_vps (&vbi, b);
	OBL (ev_n == 0 && chsw_n == 0, "vps.change: nothing on the first reception");
	vbi_decode_vps (&vbi, b);
	OBL (ev_net_n == 1 && chsw_n == 1 && chsw_id == id_b, "vps.change: one network event and one cache drop on confirmation");
	vbi_decode_vps (&vbi, b);
	OBL (ev_net_n == 1 && chsw_n == 1, "vps.change: exactly one network event for the change");
	CANARY ("vps change end");
}

/* ---- packet 8/30 format 1 and 2: parse_bsd() */
struct in_bsd {
	uint8_t a[42], b[42];
	int cni_old, cycle; unsigned nuid;
	int designation;
	int gk; unsigned gv1, gv2;
};

/* format 2: every Hamming 8/4 byte of the packet (bytes 8..21) must be
   correctable; the CNI is what the public decoder of packet-830.c returns
   (proved against EN 300 706 / TR 101 231 in C12).  The shared VPS code
   0xDC3, which parse_bsd resolves by a distinction bit, is left out here. */
static int spec_8302 (const uint8_t *pkt, int *cni)
{
	unsigned i, u = 0;
	int ok = 1;
	for (i = 8; i < 22; ++i) if (spec_unham8c (pkt[i]) < 0) ok = 0;
	if (ok) ok = vbi_decode_teletext_8302_cni (&u, pkt);
	*cni = (int) u;
	return ok;
}

void h_bsd (void)
{
	DECL_INPUTS (in_bsd, in);
	vbi_network *n = &vbi.network.ev.network;
	uint8_t pkt[42];
	unsigned i, id, cni_u;
	int cni, ok = 1, fmt2, old;
	vbi_bool r;

	GHOST_SETUP (in);
	for (i = 0; i < 42; ++i) pkt[i] = in.a[i];
	ASSUME (in.designation >= 0 && in.designation <= 3);
	fmt2 = in.designation >= 2;
	if (fmt2) n->cni_8302 = in.cni_old; else n->cni_8301 = in.cni_old;
	n->cycle = in.cycle; n->nuid = in.nuid;
	ASSUME (in.cni_old >= 0 && in.cni_old <= 0xFFFF);
	clear_log ();
	if (fmt2) { ok = spec_8302 (pkt, &cni); ASSUME (!ok || cni != 0x0DC3); }
	else { vbi_decode_teletext_8301_cni (&cni_u, pkt); cni = (int) cni_u; }
	id = GHOST_ID (fmt2 ? VBI_CNI_TYPE_8302 : VBI_CNI_TYPE_8301, cni);

	r = parse_bsd (&vbi, pkt + 2, 30, in.designation);

	old = fmt2 ? n->cni_8302 : n->cni_8301;
	for (i = 0; i < 42; ++i) OBL (pkt[i] == in.a[i], "bsd.input not modified");
	if (!ok) {
		OBL (!r && ev_n == 0 && chsw_n == 0 && old == in.cni_old && n->cycle == in.cycle && n->nuid == in.nuid,
		     "bsd.uncorrectable 8/30 format 2 packet changes nothing");
		CANARY ("bsd hamming");
		return;
	}
	OBL (r, "bsd.decodable packet accepted");
	if (cni != in.cni_old) {
		OBL (ev_n == 0 && chsw_n == 0, "bsd.first reception of an identifier announces nothing and resets nothing");
		OBL (old == cni && n->cycle == 1 && n->nuid == in.nuid, "bsd.first reception is remembered for confirmation");
		CANARY ("bsd new cni");
	} else if (in.cycle == 1) {
		OBL (ev_net_n == (id != in.nuid), "bsd.network event iff the confirmed station differs from the current one");
		OBL (chsw_n == (id != in.nuid && in.nuid != 0) && (chsw_n == 0 || chsw_id == id), "bsd.cache dropped iff a known station changed");
		OBL (ev_netid_n == 1, "bsd.confirmed identifier announced once");
		OBL (n->nuid == id && n->cycle == 2 && old == cni, "bsd.station recorded, confirmation closed");
		OBL ((fmt2 ? ev_net.cni_8302 : ev_net.cni_8301) == cni && ev_net.nuid == id, "bsd.event carries the transmitted CNI and its station");
		CANARY ("bsd confirm");
	} else {
		OBL (ev_n == 0 && chsw_n == 0 && n->nuid == in.nuid && n->cycle == in.cycle && old == in.cni_old,
		     "bsd.identifier that keeps arriving is not announced again");
		CANARY ("bsd repeat");
	}
	CANARY ("bsd end");
}

void h_bsd_deviation (void)
{
	DECL_INPUTS (in_bsd, in);
	vbi_network *n = &vbi.network.ev.network;
	uint8_t a[42], b[42];
	unsigned i, ua, ub;
	int ca, cb_, fmt2;

	GHOST_SETUP (in);
	for (i = 0; i < 42; ++i) { a[i] = in.a[i]; b[i] = in.b[i]; }
	ASSUME (in.designation >= 0 && in.designation <= 3);
	fmt2 = in.designation >= 2;
	if (fmt2) {
		ASSUME (spec_8302 (a, &ca) && spec_8302 (b, &cb_) && ca != 0x0DC3 && cb_ != 0x0DC3);
	} else {
		vbi_decode_teletext_8301_cni (&ua, a); vbi_decode_teletext_8301_cni (&ub, b);
		ca = (int) ua; cb_ = (int) ub;
	}
	ASSUME (ca != cb_);
	if (fmt2) n->cni_8302 = ca; else n->cni_8301 = ca;
	n->cycle = 2; n->nuid = GHOST_ID (fmt2 ? VBI_CNI_TYPE_8302 : VBI_CNI_TYPE_8301, ca);
	clear_log ();
	parse_bsd (&vbi, b + 2, 30, in.designation);
	parse_bsd (&vbi, a + 2, 30, in.designation);
	parse_bsd (&vbi, a + 2, 30, in.designation);
	OBL (ev_net_n == 0 && chsw_n == 0, "bsd.one deviating packet between identical ones raises no network event and drops nothing");
	CANARY ("bsd deviation end");
}
