/* C15 (and C01) -- the Page Format Clear demultiplexer of src/pfc_demux.c,
 * the real code, against the byte-wise specification receiver of
 * contracts/pfc.h.
 *
 *  h_pfc_decode   _vbi_pfc_demux_decode(): any 42 packet bytes, any state
 *                 satisfying the representation invariant.  The parser loop
 *                 carries a loop contract (guarded hook in pfc_demux.c,
 *                 text below): "the code is in the state the specification
 *                 receiver is in after the same bytes".  Ghost statements at
 *                 the end of each iteration advance the specification
 *                 receiver to the code's column.  Unbounded in the number
 *                 of blocks per packet; one iteration is checked from an
 *                 arbitrary state satisfying the invariant.
 *  h_pfc_feed     vbi_pfc_demux_feed(): page / stream filter and continuity
 */
#include <string.h>
#include "contracts/pfc.h"
#include "src/pfc_demux.h"

/* ghost state, one object so that the loop's assigns clause stays short */
static struct {
	struct spec_pfc S;	/* the specification receiver */
	uint8_t shadow_g;	/* the byte memcpy put at block[g] */
	unsigned cb_calls, cb1_app, cb1_size;
	uint8_t cb1_blk_g;
} G;
static int cb_ok[8];
static int cookie;
static vbi_pfc_demux dx;
static const uint8_t *pkt_lo;	/* the 42 packet bytes */
static struct { int pgno; unsigned stream, ci, packet, n_packets; } cfg;

static vbi_bool cb (vbi_pfc_demux *d, void *ud, const vbi_pfc_block *blk);

/* memcpy replaced by its contract, specialised to what is observed.
   CBMC flattens the 2 kB block inside struct _vbi_pfc_demux to a bit
   vector, which makes every byte written at a symbolic index cost ~200k
   clauses.  The only block bytes the code reads back are block[0..3] (the
   structure header); the application reads the rest.  So the model (i)
   demands that the copy stays inside the block and inside the packet, (ii)
   performs the copy exactly for block[0..3], (iii) records in a ghost
   variable the byte that lands at the arbitrary index g.  Proving the
   obligations for arbitrary g proves them for every byte of the block. */
static void *
verif_memcpy (void *d, const void *s, size_t n)
{
	uint8_t *dd = d; const uint8_t *ss = s;
	size_t off, k;
#ifndef ZVBI_REPLAY
	OBL (__CPROVER_same_object (dd, dx.block.block) && __CPROVER_POINTER_OFFSET (dd) >= __CPROVER_POINTER_OFFSET (dx.block.block)
	     && n <= 2048 && (size_t) (dd - dx.block.block) <= 2048 - n,
	     "pfc.memcpy destination inside the 2048 byte block");
	OBL (__CPROVER_same_object (ss, pkt_lo) && n <= 42
	     && (size_t) (ss - pkt_lo) <= 42 - n, "pfc.memcpy source inside the 42 packet bytes");
#else
	OBL (dd >= dx.block.block && n <= 2048 && (size_t) (dd - dx.block.block) <= 2048 - n,
	     "pfc.memcpy destination inside the 2048 byte block");
	OBL (ss >= pkt_lo && n <= 42 && (size_t) (ss - pkt_lo) <= 42 - n,
	     "pfc.memcpy source inside the 42 packet bytes");
#endif
	off = (size_t) (dd - dx.block.block);
	for (k = 0; k < 4; ++k)
		if (off <= k && k < off + n) dx.block.block[k] = ss[k - off];
	if (off <= G.S.g && G.S.g < off + n) G.shadow_g = ss[G.S.g - off];
	return d;
}
#define memcpy verif_memcpy

/* ---- the loop contract of the parser loop in _vbi_pfc_demux_decode() */
#define PFC_SYNC(d, col) \
	(G.S.col == (col) && !G.S.desync && !G.S.stopped \
	 && G.S.bi == (d)->bi && G.S.left == (d)->left && G.S.app == (d)->block.application_id \
	 && (G.S.app == SPEC_PFC_NO_APP || G.S.size == (d)->block.block_size) \
	 && WF_PFC ((d)->bi, (d)->left, (d)->block.application_id, (d)->block.block_size) \
	 && (G.S.app != SPEC_PFC_NO_APP \
	     || (((d)->bi < 1 || (d)->block.block[0] == G.S.sh[0]) && ((d)->bi < 2 || (d)->block.block[1] == G.S.sh[1]) \
		 && ((d)->bi < 3 || (d)->block.block[2] == G.S.sh[2]) && ((d)->bi < 4 || (d)->block.block[3] == G.S.sh[3]))) \
	 && (G.S.app == SPEC_PFC_NO_APP || G.S.g >= G.S.bi || G.shadow_g == G.S.blk_g) \
	 && G.S.delivered == G.cb_calls && G.cb_calls <= 8 \
	 && (G.cb_calls == 0 || (G.cb1_app == G.S.d1_app && G.cb1_size == G.S.d1_size \
				 && (G.S.g >= G.S.d1_size || G.cb1_blk_g == G.S.d1_blk_g))))

#ifdef PFC_SAFETY_ONLY	/* plain unwinding, no specification receiver */
#define ZVBI_VERIF_PFC_DECODE_LOOP(d, buffer, col)
#define ZVBI_VERIF_PFC_DECODE_SYNC(d, buffer, col) ((void) 0)
#elif defined (PFC_UNWIND)	/* plain unwinding with the specification receiver */
#define ZVBI_VERIF_PFC_DECODE_LOOP(d, buffer, col)
#define ZVBI_VERIF_PFC_DECODE_SYNC(d, buffer, col) ((void) 0)
#else
#define ZVBI_VERIF_PFC_DECODE_LOOP(d, buffer, col) \
	__CPROVER_assigns (col, (d)->bi, (d)->left, (d)->block.application_id, (d)->block.block_size, \
			   __CPROVER_object_upto ((d)->block.block, 4), __CPROVER_object_whole (&G)) \
	__CPROVER_loop_invariant ((col) >= 3 && (col) <= 42 && G.S.g < 2048 && PFC_SYNC (d, col)) \
	__CPROVER_decreases (42 - (int) (col))
#define ZVBI_VERIF_PFC_DECODE_SYNC(d, buffer, col) spec_pfc_advance (&G.S, buffer, cb_ok, col)
#endif

#include "src/hamm.c"
#include "src/pfc_demux.c"

struct in_pfc {
	unsigned ci, packet, n_packets, bi, left, app, size;
	uint8_t sh[4];
	uint8_t b[42];
	unsigned g;
	uint8_t blk_g;
	int cb_ok[8];
	int pgno; unsigned stream;
};

static vbi_bool
cb (vbi_pfc_demux *d, void *ud, const vbi_pfc_block *blk)
{
	OBL (d == &dx && ud == &cookie && blk == &dx.block, "pfc.callback gets its demux, user pointer and block");
	OBL (dx.left == 0 && dx.bi == blk->block_size, "pfc.delivered block is complete");
	if (G.cb_calls == 0) { G.cb1_app = blk->application_id; G.cb1_size = blk->block_size; G.cb1_blk_g = G.shadow_g; }
	if (G.cb_calls < 8) return cb_ok[G.cb_calls++];
	return cb_ok[7];
}

static void
setup (const struct in_pfc *in)
{
	unsigned i;
#ifndef ZVBI_REPLAY
	{ vbi_pfc_demux nondet_pfc (void); dx = nondet_pfc (); }
#endif
	dx.callback = cb; dx.user_data = &cookie;
	dx.block.pgno = cfg.pgno = in->pgno; dx.block.stream = cfg.stream = in->stream;
	dx.ci = cfg.ci = in->ci; dx.packet = cfg.packet = in->packet; dx.n_packets = cfg.n_packets = in->n_packets;
	dx.bi = in->bi; dx.left = in->left;
	dx.block.application_id = in->app; dx.block.block_size = in->size;
	ASSUME (in->g < 2048);
	ASSUME (WF_PFC (dx.bi, dx.left, dx.block.application_id, dx.block.block_size));
	G.shadow_g = in->blk_g;
	if (in->app == SPEC_PFC_NO_APP)
		for (i = 0; i < 4; ++i) dx.block.block[i] = in->sh[i];
	for (i = 0; i < 8; ++i) cb_ok[i] = in->cb_ok[i];
	G.cb_calls = 0;
	G.S.bi = in->bi; G.S.left = in->left; G.S.app = in->app; G.S.size = in->size; G.S.g = in->g;
	G.S.blk_g = in->blk_g;
	for (i = 0; i < 4; ++i) G.S.sh[i] = in->sh[i];
}

void h_pfc_decode (void)
{
	DECL_INPUTS (in_pfc, in);
	vbi_bool r;
	int bp_bad;

	spec_hamm_init ();
	setup (&in);
	spec_pfc_begin (&G.S, in.b);
	bp_bad = G.S.desync;
	pkt_lo = in.b;

	r = _vbi_pfc_demux_decode (&dx, in.b);

	OBL (WF_PFC (dx.bi, dx.left, dx.block.application_id, dx.block.block_size),
	     "pfc.wf: block index and remaining count stay inside the 2048 byte block");
#ifdef PFC_SAFETY_ONLY
	OBL (r || (dx.ci == 256 && dx.packet == 256 && dx.n_packets == 0 && dx.left == 0),
	     "pfc.FALSE: damaged block is discarded and the page abandoned");
	OBL (!r || (dx.ci == cfg.ci && dx.packet == cfg.packet && dx.n_packets == cfg.n_packets), "pfc.decode keeps the page continuity state");
	OBL (dx.block.pgno == cfg.pgno && dx.block.stream == cfg.stream && dx.callback == cb && dx.user_data == &cookie,
	     "pfc.configuration is never changed");
	if (!bp_bad) { CANARY ("pfc decode end"); }
	return;
#endif
	/* the specification receiver reads the rest of the packet */
	spec_pfc_advance (&G.S, in.b, cb_ok, 42);

	OBL (!r == G.S.desync, "pfc.FALSE iff the packet is uncorrectable, out of sync or refused by the application");
	OBL (G.cb_calls == G.S.delivered, "pfc.one delivery per block completed in the packet");
	if (G.S.delivered > 0) {
		OBL (G.cb1_app == G.S.d1_app && G.cb1_size == G.S.d1_size, "pfc.delivered with the application id and size of its structure header");
		OBL (G.S.g >= G.S.d1_size || G.cb1_blk_g == G.S.d1_blk_g, "pfc.delivered bytes are the bytes sent, in order");
		CANARY ("pfc delivered");
	}
	OBL (dx.bi == G.S.bi && dx.left == G.S.left && dx.block.application_id == G.S.app,
	     "pfc.receiver state after the packet (bytes stored, bytes expected, header or block)");
	if (G.S.app != SPEC_PFC_NO_APP) {
		OBL (dx.block.block_size == G.S.size, "pfc.block size is the one of the structure header");
		OBL (G.S.g >= G.S.bi || G.shadow_g == G.S.blk_g, "pfc.bytes stored so far are the bytes sent");
	}
	if (G.S.desync) {
		OBL (dx.ci == 256 && dx.packet == 256 && dx.n_packets == 0, "pfc.damaged block is discarded and the page abandoned");
		CANARY ("pfc desync");
	} else {
		OBL (dx.ci == cfg.ci && dx.packet == cfg.packet && dx.n_packets == cfg.n_packets, "pfc.decode keeps the page continuity state");
	}
	OBL (dx.block.pgno == cfg.pgno && dx.block.stream == cfg.stream && dx.callback == cb && dx.user_data == &cookie,
	     "pfc.configuration is never changed");
	if (G.S.delivered > 1) CANARY ("pfc two blocks in one packet");
	CANARY ("pfc decode end");
}

/* ---- vbi_pfc_demux_feed(): the page / stream filter.  The parser
   _vbi_pfc_demux_decode is replaced by a contract that only counts calls
   (goto-instrument --replace-call-with-contract) */
#ifndef ZVBI_REPLAY
static unsigned decode_calls;
static const uint8_t *decode_buf;
static vbi_bool decode_ret;
vbi_bool
_vbi_pfc_demux_decode (vbi_pfc_demux *d, const uint8_t buffer[42])
__CPROVER_requires (d == &dx)
__CPROVER_assigns (decode_calls, decode_buf)
__CPROVER_ensures (decode_calls == __CPROVER_old (decode_calls) + 1 && decode_buf == buffer
		   && __CPROVER_return_value == decode_ret);

struct in_pfcf {
	unsigned ci, packet, n_packets, bi, left, app, size;
	uint8_t b[42];
	int pgno; unsigned stream;
	int decode_ret;
};

void h_pfc_feed (void)
{
	DECL_INPUTS (in_pfcf, in);
	vbi_bool r;
	int n0, n1, p0, p1, s1, s2, s3, s4, bad = 0;
	unsigned mag, packet;
	int was_reset, unchanged;

	spec_hamm_init ();
	{ vbi_pfc_demux nondet_pfc (void); dx = nondet_pfc (); }
	dx.callback = cb; dx.user_data = &cookie;
	ASSUME (in.pgno >= 0x100 && in.pgno <= 0x8FF && in.stream <= 15);
	dx.block.pgno = in.pgno; dx.block.stream = in.stream;
	dx.ci = in.ci; dx.packet = in.packet; dx.n_packets = in.n_packets;
	dx.bi = in.bi; dx.left = in.left;
	dx.block.application_id = in.app; dx.block.block_size = in.size;
	ASSUME (WF_PFC (dx.bi, dx.left, dx.block.application_id, dx.block.block_size));
	ASSUME (in.ci <= 256 && in.packet <= 256 && in.n_packets <= 31);
	decode_calls = 0; decode_ret = in.decode_ret;

	r = vbi_pfc_demux_feed (&dx, in.b);

	n0 = spec_unham8c (in.b[0]); n1 = spec_unham8c (in.b[1]);
	was_reset = (dx.ci == 256 || dx.ci == ((unsigned) spec_unham8c (in.b[4]) + 1) % 16) && dx.bi == 0 && dx.left == 0
		&& dx.block.application_id == SPEC_PFC_NO_APP;
	unchanged = dx.ci == in.ci && dx.packet == in.packet && dx.n_packets == in.n_packets
		&& dx.bi == in.bi && dx.left == in.left && dx.block.application_id == in.app
		&& dx.block.block_size == in.size;
	OBL (decode_calls <= 1, "pfcf.a packet is parsed at most once");
	OBL (WF_PFC (dx.bi, dx.left, dx.block.application_id, dx.block.block_size), "pfcf.wf preserved");
	OBL (dx.block.pgno == in.pgno && dx.block.stream == in.stream && dx.callback == cb && dx.user_data == &cookie,
	     "pfcf.configuration is never changed");
	if (n0 < 0 || n1 < 0) {
		OBL (!r && decode_calls == 0, "pfcf.uncorrectable packet address: error, nothing parsed");
		OBL (dx.left == 0 && dx.bi == 0 && dx.n_packets == 0, "pfcf.uncorrectable packet address: block in progress discarded");
		return;
	}
	mag = (unsigned) n0 & 7; packet = ((unsigned) n0 >> 3) | ((unsigned) n1 << 1);
	if (packet == 0) {
		OBL (decode_calls == 0, "pfcf.page header carries no block data");
		p0 = spec_unham8c (in.b[2]); p1 = spec_unham8c (in.b[3]);
		if (p0 < 0 || p1 < 0) {
			OBL (!r && dx.left == 0 && dx.n_packets == 0, "pfcf.uncorrectable page number: error, block discarded");
			return;
		}
		if ((int) ((mag ? mag : 8) * 256 + (unsigned) p1 * 16 + (unsigned) p0) != in.pgno) {
			OBL (r && dx.n_packets == 0, "pfcf.header of another page closes the filter");
			OBL (dx.bi == in.bi && dx.left == in.left && dx.block.application_id == in.app && dx.ci == in.ci,
			     "pfcf.header of another page leaves the block in progress alone");
			CANARY ("pfcf other page");
			return;
		}
		s1 = spec_unham8c (in.b[4]); s2 = spec_unham8c (in.b[5]);
		s3 = spec_unham8c (in.b[6]); s4 = spec_unham8c (in.b[7]);
		if (s1 < 0 || s2 < 0 || s3 < 0 || s4 < 0) {
			OBL (!r && dx.left == 0 && dx.n_packets == 0, "pfcf.uncorrectable sub-code: error, block discarded");
			CANARY ("pfcf bad subcode");
			return;
		}
		if ((unsigned) s3 != in.stream) {
			OBL (r && dx.n_packets == 0, "pfcf.header of another stream closes the filter");
			OBL (dx.bi == in.bi && dx.left == in.left && dx.block.application_id == in.app && dx.ci == in.ci,
			     "pfcf.header of another stream leaves the block in progress alone");
			return;
		}
		OBL (r, "pfcf.header of our page accepted");
		OBL (dx.ci == (((unsigned) s1 + 1) & 15) && dx.packet == 1
		     && dx.n_packets == (((unsigned) s2 & 7) + (((unsigned) s4 << 3) & 0x18)),
		     "pfcf.header sets next continuity index, first packet and packet count (sub-code S1, S2, S4)");
		if ((unsigned) s1 == in.ci)
			OBL (dx.bi == in.bi && dx.left == in.left && dx.block.application_id == in.app && dx.block.block_size == in.size,
			     "pfcf.header in sequence keeps the block in progress");
		else
			OBL (dx.bi == 0 && dx.left == 0 && dx.block.application_id == SPEC_PFC_NO_APP,
			     "pfcf.continuity gap discards the block in progress only");
		CANARY ("pfcf our header");
		return;
	}
	if (((mag ? mag : 8) ^ ((unsigned) in.pgno >> 8)) & 15) {
		OBL (r && unchanged && decode_calls == 0, "pfcf.packet of another magazine changes nothing");
		return;
	}
	if (in.n_packets == 0 || packet > 25) {
		OBL (r && unchanged && decode_calls == 0, "pfcf.packet outside our page or beyond row 25 changes nothing");
		return;
	}
	if (packet != in.packet || packet > in.n_packets) {
		OBL (r && decode_calls == 0 && dx.left == 0 && dx.bi == 0 && dx.n_packets == 0,
		     "pfcf.packet out of sequence discards the block and waits for the next header");
		return;
	}
	OBL (decode_calls == 1 && decode_buf == in.b && r == decode_ret, "pfcf.packet in sequence is parsed once, result passed on");
	OBL (dx.packet == packet + 1, "pfcf.next packet expected");
	CANARY ("pfcf parsed");
}
#endif
