/* C12 -- Teletext packet 8/30 format 1 / 2 decoders (src/packet-830.c), the
 * real code, against the specification encoders of contracts/p830.h. */
#include "contracts/p830.h"
#include "src/hamm.c"
#include "src/packet-830.c"

struct in_8301 { uint8_t buf[42]; struct spec_8301 v; time_t t0; int se0; unsigned cni0; };
struct in_8301_raw { uint8_t buf[42]; time_t t0; int se0; };
struct in_8302 { uint8_t buf[42]; struct spec_8302 v; unsigned errbyte, errbit; vbi_program_id pid0; unsigned cni0; };
struct in_8302_raw { uint8_t buf[42]; unsigned bad; unsigned e1, e2; vbi_program_id pid0; unsigned cni0; };

/* decode(enc(v)) == v for every CNI, MJD, UTC, offset and every start buffer */
void h_lemma_8301_roundtrip (void)
{
	DECL_INPUTS (in_8301, in);
	uint8_t b[42];
	unsigned i, cni = in.cni0;
	time_t t = in.t0;
	int se = in.se0;
	int64_t mjd, want;
	ASSUME (SPEC_8301_VALID (&in.v));
	for (i = 0; i < 42; ++i) b[i] = in.buf[i];
	spec_enc_8301 (b, &in.v);

	OBL (vbi_decode_teletext_8301_cni (&cni, b) == 1, "8301.cni decode succeeds");
	OBL (cni == in.v.cni, "8301.cni decode(enc(cni)) == cni");

	OBL (vbi_decode_teletext_8301_local_time (&t, &se, b) == 1, "8301.time decode succeeds");
	/* summed units first: the same association order as a digit-serial
	   conversion, which keeps the equivalence check cheap for the solver */
	mjd = (int) (in.v.mjd_digit[4] + in.v.mjd_digit[3] * 10 + in.v.mjd_digit[2] * 100
		     + in.v.mjd_digit[1] * 1000 + in.v.mjd_digit[0] * 10000);
	want = (mjd - 40587) * 86400 + (in.v.h1 * 10 + in.v.h0) * 3600
		+ (in.v.m1 * 10 + in.v.m0) * 60 + in.v.s1 * 10 + in.v.s0;
	OBL ((int64_t) t == want, "8301.time == (MJD-40587)*86400 + UTC seconds");
	OBL (se == (in.v.lto_negative ? -1 : 1) * (int) (in.v.lto_half_hours * 1800),
	     "8301.seconds_east == signed half hours * 1800");
	CANARY ("8301 roundtrip end");
}

/* BCD-invalid or out-of-range input is refused and leaves the outputs alone */
void h_lemma_8301_reject (void)
{
	DECL_INPUTS (in_8301_raw, in);
	time_t t = in.t0;
	int se = in.se0;
	unsigned n[11], i, ok_digits = 1, hh, mm, ss;
	vbi_bool r;
	n[0] = in.buf[12] & 15; n[1] = in.buf[13] >> 4; n[2] = in.buf[13] & 15;
	n[3] = in.buf[14] >> 4; n[4] = in.buf[14] & 15;
	n[5] = in.buf[15] >> 4; n[6] = in.buf[15] & 15;
	n[7] = in.buf[16] >> 4; n[8] = in.buf[16] & 15;
	n[9] = in.buf[17] >> 4; n[10] = in.buf[17] & 15;
	for (i = 0; i < 11; ++i) ok_digits &= SPEC_NIB_OK (n[i]);
	hh = (n[5] - 1) * 10 + n[6] - 1;
	mm = (n[7] - 1) * 10 + n[8] - 1;
	ss = (n[9] - 1) * 10 + n[10] - 1;

	r = vbi_decode_teletext_8301_local_time (&t, &se, in.buf);
	if (!ok_digits || hh > 23 || mm > 59 || ss > 60) {
		OBL (!r, "8301.time BCD-invalid or out-of-range input refused");
		CANARY ("8301 reject invalid");
	}
	if (ok_digits && hh <= 23 && mm <= 59 && ss <= 59) {
		OBL (r, "8301.time valid input accepted");
		CANARY ("8301 accept valid");
	}
	if (!r)
		OBL (t == in.t0 && se == in.se0, "8301.time refused decode leaves outputs unmodified");
}

/* format 2: decode(enc(v)) == v, also with one bit error in any protected byte */
void h_lemma_8302_roundtrip (void)
{
	DECL_INPUTS (in_8302, in);
	uint8_t b[42];
	unsigned i, cni = in.cni0;
	vbi_program_id pid = in.pid0;
	ASSUME (SPEC_8302_VALID (&in.v));
	ASSUME (in.errbyte >= 9 && in.errbyte <= 22 && in.errbit <= 7);
	for (i = 0; i < 42; ++i) b[i] = in.buf[i];
	spec_enc_8302 (b, &in.v);
	/* errbyte == 22: no error injected */
	if (in.errbyte <= 21)
		b[in.errbyte] ^= 1u << in.errbit;

	OBL (vbi_decode_teletext_8302_cni (&cni, b) == 1, "8302.cni decode succeeds");
	OBL (cni == in.v.cni, "8302.cni decode(enc(cni)^1bit) == cni");
	OBL (vbi_decode_teletext_8302_pdc (&pid, b) == 1, "8302.pdc decode succeeds");
	OBL (pid.cni == in.v.cni, "8302.pdc cni");
	OBL (pid.pil == in.v.pil, "8302.pdc pil");
	OBL (pid.pty == in.v.pty, "8302.pdc pty");
	OBL ((unsigned) pid.pcs_audio == in.v.pcs, "8302.pdc pcs audio");
	OBL ((unsigned) pid.luf == in.v.luf && (unsigned) pid.mi == in.v.mi
	     && (unsigned) pid.prf == in.v.prf, "8302.pdc luf/mi/prf flags");
	OBL ((unsigned) pid.channel == VBI_PID_CHANNEL_LCI_0 + in.v.lci, "8302.pdc label channel");
	OBL (pid.cni_type == VBI_CNI_TYPE_8302, "8302.pdc cni type");
	CANARY ("8302 roundtrip end");
}

/* two bit errors in one protected byte => refused, outputs unmodified */
void h_lemma_8302_reject (void)
{
	DECL_INPUTS (in_8302_raw, in);
	uint8_t b[42];
	unsigned i, cni = in.cni0, d;
	vbi_program_id pid = in.pid0;
	vbi_bool r1, r2;
	ASSUME (in.bad >= 9 && in.bad <= 21 && in.e1 < in.e2 && in.e2 <= 7);
	for (i = 0; i < 42; ++i) b[i] = in.buf[i];
	/* make byte `bad` a valid code word hit by two bit errors */
	d = in.buf[in.bad] & 15u;
	b[in.bad] = spec_ham8 (d) ^ (1u << in.e1) ^ (1u << in.e2);

	r1 = vbi_decode_teletext_8302_pdc (&pid, b);
	OBL (!r1, "8302.pdc double error in a protected byte refused");
	OBL (0 == memcmp (&pid, &in.pid0, sizeof (pid)), "8302.pdc refused decode leaves pid unmodified");
	r2 = vbi_decode_teletext_8302_cni (&cni, b);
	if (in.bad == 10 || in.bad == 11 || in.bad == 12 || in.bad == 13
	    || (in.bad >= 16 && in.bad <= 19)) {
		OBL (!r2, "8302.cni double error in a CNI byte refused");
		CANARY ("8302 cni reject");
	}
	if (!r2)
		OBL (cni == in.cni0, "8302.cni refused decode leaves cni unmodified");
	CANARY ("8302 reject end");
}
