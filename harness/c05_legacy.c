/* C05 -- the legacy bit slicer interface of src/decoder.c
 * (vbi_bit_slicer_init / vbi_bit_slice), the real code:
 *   h_legacy_init   vbi_bit_slicer_init() establishes WF_LBS for every service
 *                   table row, sampling rate, samples per line, pixel format
 *   h_legacy_slice  (bounded) the slicer functions under WF_LBS read only
 *                   raw[0 .. raw_samples * bpp)
 */
#include "contracts/bs.h"
#include "src/decoder.c"

#include "src/raw_decoder.c"	/* _vbi_service_table */

_vbi_log_hook _vbi_global_log;
void _vbi_log_printf (vbi_log_fn *log_fn, void *user_data, vbi_log_mask level,
		      const char *source_file, const char *context, const char *templ, ...)
{
}

#ifndef SEL_ROW
#define SEL_ROW 2
#endif
#ifndef SEL_FMT
#define SEL_FMT VBI_PIXFMT_YUV420
#endif

static int legacy_bpp (vbi_pixfmt f) { return VBI_PIXFMT_BPP (f); }
static int legacy_gw (vbi_pixfmt f) { return (f >= VBI_PIXFMT_RGB16_LE) ? 2 : 1; }

struct in_li { int raw_samples, sampling_rate; };

void h_legacy_init (void)
{
	DECL_INPUTS (in_li, in);
	static vbi_bit_slicer d;
	const _vbi_service_par *par = &_vbi_service_table[SEL_ROW];

	ASSUME (par->id != 0);
	ASSUME (in.raw_samples >= 0 && in.raw_samples <= 32767);
	ASSUME (in.sampling_rate >= 1000000 && in.sampling_rate <= 200000000);
	vbi_bit_slicer_init (&d, in.raw_samples, in.sampling_rate, par->cri_rate, par->bit_rate,
			     par->cri_frc, par->cri_frc_mask, par->cri_bits, par->frc_bits,
			     par->payload, par->modulation, SEL_FMT);
	OBL (WF_LBS (&d, in.raw_samples, legacy_bpp (SEL_FMT), legacy_gw (SEL_FMT)),
	     "lbs.T-B vbi_bit_slicer_init keeps every sampling point inside raw_samples");
	if (d.cri_bytes > 0) CANARY ("legacy searchable");
	CANARY ("legacy init");
}

/* ---------------------------------------------------------------- bounded end to end
 * real vbi_bit_slicer_init() with a small concrete configuration, then the
 * real vbi_bit_slice() on an object of exactly raw_samples * bpp bytes with
 * arbitrary content: no access outside it. */
#ifndef E2E_SAMPLES
#define E2E_SAMPLES 24
#endif
#ifndef E2E_BPP
#define E2E_BPP 1
#endif
#ifndef E2E_MOD
#define E2E_MOD VBI_MODULATION_NRZ_LSB
#endif
#ifndef E2E_PAYLOAD
#define E2E_PAYLOAD 3
#endif

struct in_le {
	unsigned int cri_frc, cri_mask;
	int thresh;
	uint8_t raw[E2E_SAMPLES * E2E_BPP];
};

void h_legacy_e2e (void)
{
	DECL_INPUTS (in_le, in);
	static vbi_bit_slicer d;
	uint8_t raw[E2E_SAMPLES * E2E_BPP];	/* exactly sized: CBMC object bounds, natively ASan red zones */
	uint8_t out[(E2E_PAYLOAD + 7) / 8];
	vbi_bool r;

	memcpy (raw, in.raw, sizeof (raw));
	/* 4 samples per CRI bit, 3 per payload bit */
	vbi_bit_slicer_init (&d, E2E_SAMPLES, 12000000, 3000000, 4000000,
			     in.cri_frc, in.cri_mask, 2, 1, E2E_PAYLOAD, E2E_MOD, SEL_FMT);
	ASSUME (in.thresh >= 0 && in.thresh <= (255 << 12));
	d.thresh = in.thresh;
	r = vbi_bit_slice (&d, raw, out);
	if (r) CANARY ("legacy e2e found"); else CANARY ("legacy e2e not found");
}
