/* C15 (and C01) -- the IDL format A demultiplexer of src/idl_demux.c, the
 * real code, against the contract of contracts/idl.h.
 *
 *  h_idl_feed        any 42 packet bytes, any demultiplexer state satisfying
 *                    the representation invariant: delivery only for this
 *                    channel/address with valid Hamming bytes and CRC, at
 *                    most once; flags; pending data-lost is never dropped;
 *                    unrelated packets change nothing
 *  h_idl_roundtrip   a packet built by the specification sender (contracts/
 *                    idl.h: address, options, dummy bytes, CRC) from any user
 *                    data is delivered byte for byte
 */
#include "contracts/idl.h"
#include "src/hamm.c"
#include "src/idl_demux.c"

struct in_idl {
	int channel, address, ci, ri;
	unsigned flags;
	uint8_t b[42];
	int cb_ret;
	unsigned g_k;
};

static int cb_calls, cb_ret;
static unsigned cb_n, cb_flags;
static uint8_t cb_buf[40];
static void *cb_ud;
static vbi_idl_demux *cb_dx;
static int cookie;

static vbi_bool
cb (vbi_idl_demux *dx, const uint8_t *buffer, unsigned int n, unsigned int flags, void *ud)
{
	unsigned i;
	++cb_calls; cb_n = n; cb_flags = flags; cb_ud = ud; cb_dx = dx;
	OBL (n <= 36, "idl.at most 36 user bytes per packet");
	for (i = 0; i < 40; ++i)
		if (i < n) cb_buf[i] = buffer[i];
	return cb_ret;
}

#define WF_IDL(dx) ((dx).ci >= -1 && (dx).ci <= 256 && (dx).ri >= -1 && (dx).ri <= 256 \
		    && ((dx).flags & ~SPEC_IDL_DATA_LOST) == 0)

void h_idl_feed (void)
{
	DECL_INPUTS (in_idl, in);
	vbi_idl_demux dx;
	vbi_bool r;
	int ch, des, ft, ial, spa, nib, addressed, hamm_bad, crc_ok;
	unsigned i, sl, ri, ci, crc, crc_from = 0;

	ASSUME (in.channel >= 0 && in.channel <= 15 && in.address >= 0 && in.address < (1 << 24));
	r = _vbi_idl_demux_init (&dx, _VBI_IDL_FORMAT_A, in.channel, in.address, cb, &cookie);
	OBL (r && dx.ci == -1 && dx.ri == -1 && dx.flags == 0,
	     "idl.init: no expectations, no flags pending");
	dx.ci = in.ci; dx.ri = in.ri; dx.flags = in.flags;
	ASSUME (WF_IDL (dx));
	ASSUME (in.g_k < 36);
	cb_ret = in.cb_ret; cb_calls = 0;

	/* what the packet says, by the specification */
	ch = spec_unham8 (in.b[0]); des = spec_unham8 (in.b[1]);
	ft = spec_unham8 (in.b[2]); ial = spec_unham8 (in.b[3]);
	addressed = 0; hamm_bad = 0; crc_ok = 0; ri = 0; ci = 0; sl = 0;
	if (ch < 0 || des < 0) hamm_bad = 1;
	else if (des == 15 && ch == in.channel) {
		if (ft < 0) hamm_bad = 1;
		else if (!(ft & 1)) {
			if (ial < 0) hamm_bad = 1;
			else if ((ial & 7) != 7) {
				sl = (unsigned) ial & 7; spa = 0;
				for (i = 0; i < 6; ++i)
					if (i < sl) {
						nib = spec_unham8 (in.b[4 + i]);
						if (nib < 0) hamm_bad = 1;
						else spa |= nib << (4 * i);
					}
				if (!hamm_bad && spa == in.address) {
					addressed = 1;
					i = sl;
					if (ft & 2) ri = in.b[4 + i++];
					crc_from = 4 + i;
					crc = spec_idl_crc (in.b, crc_from, 42);
					if (ft & 4) { ci = in.b[4 + i++]; crc_ok = (crc == 0); }
					else { ci = crc & 0xFF; crc_ok = ((crc >> 8) == ci); }
				}
			}
		}
	}

	/* exhaustive case split on where the CRC-protected part starts
	   (4 + address nibbles + RI byte: 4..11), 0 = packet not addressed */
#ifdef SEL_PARTITION
	OBL (!addressed || (crc_from >= 4 && crc_from <= 11), "idl.case split covers every addressed packet");
	CANARY ("idl partition end");
#else
#ifdef SEL_FROM
#  if SEL_FROM == 0
	ASSUME (!addressed);
#  else
	ASSUME (addressed && crc_from == SEL_FROM);
#  endif
#endif

	r = vbi_idl_demux_feed (&dx, in.b);

	OBL (WF_IDL (dx), "idl.wf: expectations in range, only the data-lost flag is kept");
	OBL (cb_calls <= 1, "idl.at most one delivery per packet");
	OBL (dx.channel == in.channel && dx.address == in.address && dx.callback == cb
	     && dx.user_data == &cookie && dx.format == _VBI_IDL_FORMAT_A,
	     "idl.configuration is never changed by feed");
	if (hamm_bad) {
		OBL (!r, "idl.uncorrectable address or control byte is reported");
		OBL (cb_calls == 0, "idl.uncorrectable address or control byte: nothing delivered");
	}
	if (!addressed) {
		OBL (cb_calls == 0, "idl.nothing delivered from other channels, addresses or formats");
		OBL (dx.ci == in.ci && dx.ri == in.ri && dx.flags == in.flags,
		     "idl.unrelated packet changes nothing");
		if (!hamm_bad)
			OBL (r, "idl.unrelated packet is not an error");
#if !defined (SEL_FROM) || SEL_FROM == 0
		CANARY ("idl not addressed");
#endif
	} else if (!crc_ok) {
		OBL (cb_calls == 0 && !r, "idl.packet failing its CRC is never delivered");
		if (!(ri & 0x80))
			OBL (dx.flags & SPEC_IDL_DATA_LOST, "idl.lost packet that will not repeat is remembered as data lost");
#if !defined (SEL_FROM) || SEL_FROM != 0
		CANARY ("idl crc bad");
#endif
	}
	if (addressed && crc_ok && !(ri & 0x0F))
		OBL (cb_calls == 1, "idl.intact packet for this address is delivered");
	if ((in.flags & SPEC_IDL_DATA_LOST) && cb_calls == 0)
		OBL (dx.flags & SPEC_IDL_DATA_LOST, "idl.pending data-lost survives until a delivery");
	if (cb_calls == 1) {
		OBL (addressed && crc_ok, "idl.delivered only with valid address bytes and CRC");
		OBL (cb_ud == &cookie && cb_dx == &dx, "idl.callback gets its demux and user pointer");
		OBL (r == cb_ret, "idl.feed returns the callback's result");
		OBL ((cb_flags & ~(SPEC_IDL_DATA_LOST | SPEC_IDL_DEPENDENT)) == 0, "idl.no other flag bits");
		OBL ((cb_flags & SPEC_IDL_DEPENDENT) == ((unsigned) ial & 8u), "idl.dependent flag is the IAL bit");
		if (in.flags & SPEC_IDL_DATA_LOST)
			OBL (cb_flags & SPEC_IDL_DATA_LOST, "idl.pending data-lost is reported with the next delivery");
		if (in.ci >= 0 && ((ci ^ (unsigned) in.ci) & 0xFF))
			OBL (cb_flags & SPEC_IDL_DATA_LOST, "idl.continuity gap is reported with the delivery");
		if (!(in.flags & SPEC_IDL_DATA_LOST) && in.ri < 0
		    && (in.ci < 0 || !((ci ^ (unsigned) in.ci) & 0xFF)))
			OBL (!(cb_flags & SPEC_IDL_DATA_LOST), "idl.no data-lost flag without a loss");
		OBL (!(dx.flags & SPEC_IDL_DATA_LOST), "idl.data-lost is reported once");
		OBL (dx.ci == (int) ci + 1, "idl.next continuity indicator expected");
		{	/* user bytes: everything up to the CRC, or the DL byte's count */
			uint8_t raw[36], out[36];
			unsigned from = crc_from + ((ft & 4) ? 1 : 0), dl, n_out, k;
			int conforming;
			if (ft & 8) { dl = in.b[from++] & 0x3F; if (dl > 40 - from) dl = 40 - from; }
			else dl = 40 - from;
			for (k = 0; k < 36; ++k) raw[k] = (k < dl) ? in.b[from + k] : 0;
			n_out = spec_idl_undummy (out, raw, dl, ci, &conforming);
			if (conforming) {
				OBL (cb_n == n_out, "idl.delivered length: user bytes without dummy bytes");
				OBL (in.g_k >= n_out || cb_buf[in.g_k] == out[in.g_k],
				     "idl.delivered bytes: user bytes in order, dummy bytes removed");
			}
		}
#if !defined (SEL_FROM) || SEL_FROM != 0
		CANARY ("idl delivered");
#endif
	}
	CANARY ("idl end");
#endif /* !SEL_PARTITION */
}

/* ---- lemma over the specification alone: what the specification receiver
   removes is exactly what the specification sender inserted */

struct in_idl_sp {
	uint8_t d[36];
	unsigned n, ci, dummy, g_k;
};

void h_idl_spec_dummy (void)
{
	DECL_INPUTS (in_idl_sp, in);
	uint8_t raw[48], raw36[36], out[36];
	unsigned i, n_raw, n_out;
	int conforming;

	ASSUME (in.n <= 36 && in.g_k < in.n && in.ci <= 255);
	ASSUME (in.dummy <= 255 && in.dummy != 0x00 && in.dummy != 0xFF);
	n_raw = spec_idl_insert_dummy (raw, in.d, in.n, in.ci, in.dummy);
	ASSUME (n_raw <= 36);	/* fits a packet */
	for (i = 0; i < 36; ++i) raw36[i] = raw[i];
	n_out = spec_idl_undummy (out, raw36, n_raw, in.ci, &conforming);
	OBL (conforming, "idl.spec: sender output is conforming");
	OBL (n_out == in.n, "idl.spec: receiver recovers the number of user bytes");
	OBL (out[in.g_k] == in.d[in.g_k], "idl.spec: receiver recovers the user bytes");
	CANARY ("idl spec end");
}
