/* C14 -- PIL to time conversion of src/pdc.c, the real code, against a
 * ghost model of the process environment and of the libc time functions.
 *
 * libc is external: getenv/setenv/unsetenv/tzset/strdup and time/gmtime_r/
 * localtime_r/mktime are replaced by stubs that implement ASSUMED contracts
 * (listed in the trusted base) over ghost state:
 *   - the environment holds at most the variable TZ with a short value,
 *   - "time zone state" is in sync with TZ iff tzset() ran after the last
 *     change of TZ,
 *   - strdup may fail; the first setenv of a call may fail (ENOMEM); putting
 *     back a value that was in the environment before does not fail,
 *   - gmtime_r/localtime_r may fail, else return an arbitrary in-range
 *     broken-down time; mktime may fail, else returns an arbitrary time,
 *     strictly increasing with the broken-down time given to it within a call,
 *   - every conversion records the zone in effect and its argument (ghost).
 * Obligations are taken from the property statement.
 */
#include <stddef.h>
#include <stdint.h>
#include <stdlib.h>
#include <string.h>
#include <time.h>
#include <errno.h>
#include <limits.h>
#include <ctype.h>
#include <float.h>
#include <stdio.h>
#include <assert.h>
#include "shim/verif.h"

/* ------------------------------------------------------------ ghost libc */
#define TZN 4				/* longest TZ value modelled: 3 characters */
static struct {
	int set; char val[TZN];		/* the variable TZ */
	int synced;			/* tzset() ran after the last change */
	int changes;			/* number of changes in this call */
} genv;

struct conv_rec { struct tm tm; int zone_set; char zone[TZN]; int synced; time_t ret; };
static struct {
	int n_mktime; struct conv_rec mk[3];
	int n_local; struct conv_rec lt;		/* localtime_r */
	int n_gm; struct conv_rec gm;			/* gmtime_r */
	int live_dups;
} gl;

struct libc_choices {			/* the nondeterminism of libc, part of the harness inputs */
	unsigned char strdup_fails, setenv_fails, time_fails, gm_fails, lt_fails;
	unsigned char mk_fails[3];
	time_t now, mk_ret[3];
	struct tm broken;		/* what gmtime_r/localtime_r answer */
};
static struct libc_choices lc;

static void record_zone (struct conv_rec *r)
{
	r->zone_set = genv.set; memcpy (r->zone, genv.val, TZN); r->synced = genv.synced;
}

static char *verif_getenv (const char *name)
{
	if (0 == strcmp (name, "TZ") && genv.set)
		return genv.val;
	return NULL;
}

static int verif_setenv (const char *name, const char *value, int overwrite)
{
	size_t n;

	OBL (0 == strcmp (name, "TZ") && overwrite, "tz.only TZ is written to the environment");
	n = strlen (value);
	ASSUME (n < TZN);		/* modelled zone names are short (stated bound) */
	if (lc.setenv_fails && genv.changes == 0) {
		errno = ENOMEM;
		return -1;
	}
	genv.set = 1; memset (genv.val, 0, TZN); memcpy (genv.val, value, n);
	genv.synced = 0; ++genv.changes;
	return 0;
}

static int verif_unsetenv (const char *name)
{
	OBL (0 == strcmp (name, "TZ"), "tz.only TZ is removed from the environment");
	genv.set = 0; memset (genv.val, 0, TZN);
	genv.synced = 0; ++genv.changes;
	return 0;
}

static void verif_tzset (void) { genv.synced = 1; }

static char *verif_strdup (const char *s)
{
	size_t n = strlen (s);
	char *p;

	if (lc.strdup_fails)
		return NULL;
	p = malloc (n + 1);
	ASSUME (p != NULL);
	memcpy (p, s, n + 1);
	++gl.live_dups;
	return p;
}

static void verif_free (void *p)
{
	if (p != NULL)
		--gl.live_dups;
	free (p);
}

static time_t verif_time (time_t *t)
{
	if (lc.time_fails)
		return (time_t) -1;
	if (t) *t = lc.now;
	return lc.now;
}

static struct tm *verif_gmtime_r (const time_t *t, struct tm *tm)
{
	if (lc.gm_fails)
		return NULL;
	*tm = lc.broken;
	gl.gm.tm = *tm; gl.gm.ret = *t; record_zone (&gl.gm); ++gl.n_gm;
	return tm;
}

static struct tm *verif_localtime_r (const time_t *t, struct tm *tm)
{
	if (lc.lt_fails)
		return NULL;
	*tm = lc.broken;
	gl.lt.tm = *tm; gl.lt.ret = *t; record_zone (&gl.lt); ++gl.n_local;
	return tm;
}

/* lexicographic order of broken-down times (unnormalised fields allowed:
   compare year, month, then day*86400 + h*3600 + m*60 + s) */
static long long tm_key (const struct tm *a)
{
	return (long long) a->tm_mday * 86400 + (long long) a->tm_hour * 3600
		+ (long long) a->tm_min * 60 + a->tm_sec;
}
static int tm_before (const struct tm *a, const struct tm *b)
{
	if (a->tm_year != b->tm_year) return a->tm_year < b->tm_year;
	if (a->tm_mon != b->tm_mon) return a->tm_mon < b->tm_mon;
	return tm_key (a) < tm_key (b);
}

/* pdc.c #undefs mktime before its wrappers _vbi_mktime/_vbi_timegm call it, so the
   stub takes the place of the libc symbol itself */
time_t mktime (struct tm *tm)
{
	int i = gl.n_mktime;
	time_t r;

	ASSUME (i < 3);
	gl.mk[i].tm = *tm; record_zone (&gl.mk[i]);
	++gl.n_mktime;
	if (lc.mk_fails[i]) {
		gl.mk[i].ret = (time_t) -1;
		return (time_t) -1;
	}
	r = lc.mk_ret[i];
	/* assumed: mktime is strictly monotone within one zone */
	if (i > 0 && !lc.mk_fails[i - 1] && tm_before (&gl.mk[i - 1].tm, tm)
	    && gl.mk[i - 1].zone_set == genv.set && 0 == memcmp (gl.mk[i - 1].zone, genv.val, TZN))
		ASSUME (r > gl.mk[i - 1].ret);
	gl.mk[i].ret = r;
	return r;
}

#define getenv verif_getenv
#define setenv verif_setenv
#define unsetenv verif_unsetenv
#define tzset verif_tzset
#define strdup verif_strdup
#define free verif_free
#define time verif_time
#define gmtime_r verif_gmtime_r
#define localtime_r verif_localtime_r
#include "src/pdc.c"
#undef getenv
#undef setenv
#undef unsetenv
#undef tzset
#undef strdup
#undef free
#undef time
#undef gmtime_r
#undef localtime_r

_vbi_log_hook _vbi_global_log;
void _vbi_log_printf (vbi_log_fn *log_fn, void *user_data, vbi_log_mask level,
		      const char *source_file, const char *context, const char *templ, ...)
{
}

/* canaries of the branch a case of the split selects */
#if !defined (SEL_TZ_MODE) || SEL_TZ_MODE == 0
#define CANARY_M0(id) CANARY (id)
#else
#define CANARY_M0(id) ((void) 0)
#endif
#if !defined (SEL_TZ_MODE) || SEL_TZ_MODE == 1
#define CANARY_M1(id) CANARY (id)
#else
#define CANARY_M1(id) ((void) 0)
#endif
#if !defined (SEL_TZ_MODE) || SEL_TZ_MODE == 2
#define CANARY_M2(id) CANARY (id)
#else
#define CANARY_M2(id) ((void) 0)
#endif
#if !defined (SEL_TZ_MODE) || SEL_TZ_MODE != 1
#define CANARY_N1(id) CANARY (id)
#else
#define CANARY_N1(id) ((void) 0)
#endif

/* ------------------------------------------------------------ specification */
static const unsigned char spec_month_days[12] = { 31, 29, 31, 30, 31, 30, 31, 31, 30, 31, 30, 31 };

/* Gregorian rule, written with remainders of the year itself */
static int spec_leap (long long year)
{
	long long r400 = ((year % 400) + 400) % 400;
	return (r400 % 4 == 0) && (r400 % 100 != 0 || r400 == 0);
}

static int spec_valid_date (unsigned int pil)
{
	unsigned int m = (pil >> 11) & 15, d = (pil >> 15) & 31, h = (pil >> 6) & 31, mi = pil & 63;
	return m >= 1 && m <= 12 && d >= 1 && d <= spec_month_days[m - 1] && h <= 23 && mi <= 59;
}

struct in_c14 {
	unsigned int pil;
	time_t start;
	int seconds_east;
	int tz_null; char tz[TZN];
	int env_set; char env[TZN];
	struct libc_choices lc;
};

static const char *g_tz;
static struct in_c14 *g_in;

static void setup (struct in_c14 *in)
{
	int k;

	in->tz[TZN - 1] = 0; in->env[TZN - 1] = 0;
	/* canonical buffers: nothing after the terminating NUL */
	for (k = 1; k < TZN; ++k) {
		if (in->tz[k - 1] == 0) in->tz[k] = 0;
		if (in->env[k - 1] == 0) in->env[k] = 0;
	}
#if defined (SEL_TZ_MODE) && SEL_TZ_MODE == 0	/* case split on the zone argument */
	in->tz_null = 1;
#elif defined (SEL_TZ_MODE) && SEL_TZ_MODE == 1
	in->tz_null = 0; in->tz[0] = 'U'; in->tz[1] = 'T'; in->tz[2] = 'C'; in->tz[3] = 0;
#elif defined (SEL_TZ_MODE)
	in->tz_null = 0;
	ASSUME (!(in->tz[0] == 'U' && in->tz[1] == 'T' && in->tz[2] == 'C'));
#endif
	ASSUME (in->tz_null || in->tz[0] != 0);		/* an empty zone name is not a zone name */
	ASSUME (in->env_set == 0 || in->env_set == 1);
	if (!in->env_set) memset (in->env, 0, TZN);
	genv.set = in->env_set; memcpy (genv.val, in->env, TZN);
	genv.synced = 1; genv.changes = 0;
	memset (&gl, 0, sizeof (gl));
	lc = in->lc;
	/* assumed range of what gmtime_r/localtime_r return */
	ASSUME (lc.broken.tm_mon >= 0 && lc.broken.tm_mon <= 11);
	ASSUME (lc.broken.tm_mday >= 1 && lc.broken.tm_mday <= 31);
	ASSUME (lc.broken.tm_hour >= 0 && lc.broken.tm_hour <= 23);
	ASSUME (lc.broken.tm_min >= 0 && lc.broken.tm_min <= 59);
	ASSUME (lc.broken.tm_sec >= 0 && lc.broken.tm_sec <= 60);
	g_tz = in->tz_null ? NULL : in->tz;
	g_in = in;
}

/* "after every call, successful or not, TZ and the time zone state are
   exactly what they were before" + the saved copy is released */
static void check_env_restored (const struct in_c14 *in)
{
	OBL (genv.set == in->env_set && 0 == memcmp (genv.val, in->env, TZN),
	     "tz.TZ is exactly what it was before the call");
	OBL (genv.synced, "tz.time zone state follows the restored TZ (tzset after the last change)");
	OBL (gl.live_dups == 0, "tz.the saved copy of TZ is released exactly once");
}

static int zone_is (const struct conv_rec *r, const char *tz)
{
	return r->zone_set && 0 == strcmp (r->zone, tz) && r->synced;
}

/* nearest-year rule and field equality on the broken-down time handed to mktime */
static void check_pil_fields (const struct conv_rec *mk, const struct tm *ref, unsigned int pil,
			      int hour, int minute)
{
	long long dy = (long long) mk->tm.tm_year - ref->tm_year;
	long long dist = 12 * dy + (long long)((int) VBI_PIL_MONTH (pil) - 1) - ref->tm_mon;

	OBL (mk->tm.tm_mon == (int) VBI_PIL_MONTH (pil) - 1 && mk->tm.tm_mday == (int) VBI_PIL_DAY (pil),
	     "pil.converted time has the PIL's month and day");
	OBL (mk->tm.tm_hour == hour && mk->tm.tm_min == minute && mk->tm.tm_sec == 0,
	     "pil.converted time has the PIL's hour and minute");
	OBL (dy >= -1 && dy <= 1 && dist >= -6 && dist <= 6,
	     "pil.nearest-year rule: within six months of the reference time");
	if (VBI_PIL_MONTH (pil) == 2 && VBI_PIL_DAY (pil) == 29)
		OBL (spec_leap ((long long) mk->tm.tm_year + 1900),
		     "pil.29 February accepted only in a leap year");
}

void h_is_valid_date (void)
{
	DECL_INPUTS (in_c14, in);
	OBL (!!vbi_pil_is_valid_date (in.pil) == spec_valid_date (in.pil & 0xFFFFF),
	     "pil.valid date iff real month, day of that month (29 Feb allowed), hour, minute");
	CANARY ("valid_date");
}

void h_pil_to_time (void)
{
	DECL_INPUTS (in_c14, in);
	time_t r;

	setup (&in);
	r = vbi_pil_to_time (in.pil, in.start, g_tz);
	check_env_restored (&in);
	if (!spec_valid_date (in.pil)) {
		OBL (r == (time_t) -1 && genv.changes == 0, "pil.invalid PIL fails without touching the environment");
		return;
	}
	if (r != (time_t) -1) {
		if (g_tz != NULL && 0 != strcmp (g_tz, "UTC")) {
			OBL (gl.n_local == 1 && zone_is (&gl.lt, g_tz), "pil.reference time viewed in the requested zone");
			OBL (gl.n_mktime == 1 && zone_is (&gl.mk[0], g_tz), "pil.converted in the requested zone");
			OBL (r == gl.mk[0].ret, "pil.result is the converted instant");
			check_pil_fields (&gl.mk[0], &gl.lt.tm, in.pil, VBI_PIL_HOUR (in.pil), VBI_PIL_MINUTE (in.pil));
			CANARY_M2 ("to_time zone ok");
		} else if (g_tz == NULL) {
			OBL (gl.n_local == 1 && gl.n_mktime == 1 && genv.changes == 0, "pil.tz NULL converts in the current zone untouched");
			OBL (r == gl.mk[0].ret, "pil.result is the converted instant");
			check_pil_fields (&gl.mk[0], &gl.lt.tm, in.pil, VBI_PIL_HOUR (in.pil), VBI_PIL_MINUTE (in.pil));
			CANARY_M0 ("to_time current zone ok");
		} else {
			OBL (gl.n_gm == 1 && gl.n_mktime == 1 && zone_is (&gl.mk[0], "UTC"), "pil.UTC conversion done in UTC");
			OBL (r == gl.mk[0].ret, "pil.result is the converted instant");
			check_pil_fields (&gl.mk[0], &gl.gm.tm, in.pil, VBI_PIL_HOUR (in.pil), VBI_PIL_MINUTE (in.pil));
			CANARY_M1 ("to_time UTC ok");
		}
	} else {
		CANARY ("to_time failed");
	}
	/* 29 February of a year that is no leap year never converts */
	if (VBI_PIL_MONTH (in.pil) == 2 && VBI_PIL_DAY (in.pil) == 29 && gl.n_mktime > 0
	    && !spec_leap ((long long) gl.mk[gl.n_mktime - 1].tm.tm_year + 1900)
	    && gl.mk[gl.n_mktime - 1].tm.tm_mon == 1)
		OBL (r == (time_t) -1 || 0, "pil.29 February of a non leap year is never converted");
}

void h_pil_lto_to_time (void)
{
	DECL_INPUTS (in_c14, in);
	time_t r;

	setup (&in);
	ASSUME (in.seconds_east >= -15 * 3600 && in.seconds_east <= 15 * 3600);
	r = vbi_pil_lto_to_time (in.pil, in.start, in.seconds_east);
	check_env_restored (&in);
	if (!spec_valid_date (in.pil)) {
		OBL (r == (time_t) -1 && genv.changes == 0, "pil.invalid PIL fails without touching the environment");
		return;
	}
	if (r != (time_t) -1) {
		OBL (gl.n_gm == 1 && gl.n_mktime == 1 && zone_is (&gl.mk[0], "UTC"), "pil.offset conversion done in UTC");
		OBL (gl.gm.ret == (in.start == (time_t) -1 ? lc.now : in.start) + in.seconds_east,
		     "pil.reference time viewed at the given offset");
		OBL (r == gl.mk[0].ret - in.seconds_east, "pil.result is the instant at the given offset");
		check_pil_fields (&gl.mk[0], &gl.gm.tm, in.pil, VBI_PIL_HOUR (in.pil), VBI_PIL_MINUTE (in.pil));
		CANARY ("lto_to_time ok");
	} else {
		CANARY ("lto_to_time failed");
	}
}

void h_pil_lto_validity_window (void)
{
	DECL_INPUTS (in_c14, in);
	time_t begin = 11, end = 7;
	vbi_bool r;

	setup (&in);
	ASSUME (in.seconds_east >= -15 * 3600 && in.seconds_east <= 15 * 3600);
	r = vbi_pil_lto_validity_window (&begin, &end, in.pil, in.start, in.seconds_east);
	check_env_restored (&in);
	if (!r) {
		OBL (begin == 11 && end == 7, "win.failure leaves the outputs alone");
		CANARY ("lto window failed");
		return;
	}
	OBL (begin < end, "win.ordered");
	if (spec_valid_date (in.pil) && gl.n_mktime == 1 && !lc.mk_fails[0]) {
		/* EN 300 231 section 9.3: from midnight (20:00 the day before if the
		   programme starts before 04:00) to 04:00 the next day */
		time_t midnight = gl.mk[0].ret - in.seconds_east;
		time_t startt = midnight + VBI_PIL_HOUR (in.pil) * 3600 + VBI_PIL_MINUTE (in.pil) * 60;
		OBL (end - begin == ((VBI_PIL_HOUR (in.pil) < 4) ? 32 : 28) * 3600, "win.length per EN 300 231");
		OBL (begin <= startt && startt < end, "win.contains the converted start time");
		OBL (gl.mk[0].tm.tm_hour == 0 && gl.mk[0].tm.tm_min == 0, "win.anchored at midnight of the PIL's day");
		check_pil_fields (&gl.mk[0], &gl.gm.tm, in.pil, 0, 0);
		CANARY ("lto window dated");
	} else if (VBI_PIL_MONTH (in.pil) >= 1 && VBI_PIL_MONTH (in.pil) <= 14) {
		if (!spec_valid_date (in.pil | 0) && !(VBI_PIL_MONTH (in.pil) <= 12 && VBI_PIL_DAY (in.pil) >= 1
		    && VBI_PIL_DAY (in.pil) <= spec_month_days[VBI_PIL_MONTH (in.pil) - 1]))
			OBL (begin == TIME_MIN && end == TIME_MAX, "win.unreal dates and indefinite codes: indefinite window");
	}
}

void h_pil_validity_window (void)
{
	DECL_INPUTS (in_c14, in);
	time_t begin = 11, end = 7;
	vbi_bool r;

	setup (&in);
	r = vbi_pil_validity_window (&begin, &end, in.pil, in.start, g_tz);
	check_env_restored (&in);
	if (!r) {
		CANARY ("window failed");
		return;
	}
	if (g_tz != NULL && 0 == strcmp (g_tz, "UTC")) {
		CANARY_M1 ("window UTC");
		return;	/* the UTC branch is the lto function (h_pil_lto_validity_window) */
	}
	if (gl.n_mktime == 2) {
		unsigned int day = VBI_PIL_DAY (in.pil);
		OBL (begin == gl.mk[0].ret && end == gl.mk[1].ret, "win.bounds are the converted instants");
		if (g_tz != NULL)
			OBL (zone_is (&gl.mk[0], g_tz) && zone_is (&gl.mk[1], g_tz) && zone_is (&gl.lt, g_tz),
			     "win.computed in the requested zone");
		OBL (gl.mk[1].tm.tm_mday == (int) day + 1 && gl.mk[1].tm.tm_hour == 4 && gl.mk[1].tm.tm_min == 0
		     && gl.mk[1].tm.tm_sec == 0, "win.ends 04:00 the next day");
		if (VBI_PIL_HOUR (in.pil) < 4)
			OBL (gl.mk[0].tm.tm_mday == (int) day - 1 && gl.mk[0].tm.tm_hour == 20 && gl.mk[0].tm.tm_min == 0,
			     "win.begins 20:00 the day before for programmes before 04:00");
		else
			OBL (gl.mk[0].tm.tm_mday == (int) day && gl.mk[0].tm.tm_hour == 0 && gl.mk[0].tm.tm_min == 0,
			     "win.begins at midnight");
		OBL (gl.mk[0].tm.tm_mon == gl.mk[1].tm.tm_mon && gl.mk[0].tm.tm_year == gl.mk[1].tm.tm_year
		     && gl.mk[0].tm.tm_mon == (int) VBI_PIL_MONTH (in.pil) - 1, "win.both bounds in the PIL's month");
		OBL (begin < end, "win.ordered");
		{
			struct conv_rec c = gl.mk[1];
			c.tm.tm_mday = day;	/* nearest year + leap rule on the PIL's own date */
			check_pil_fields (&c, &gl.lt.tm, in.pil, 4, 0);
		}
		CANARY_N1 ("window dated");
	} else {
		OBL (gl.n_mktime == 0 || VBI_PIL_MONTH (in.pil) == 15, "win.no half computed window is returned");
		if (VBI_PIL_MONTH (in.pil) <= 14)
			OBL (begin == TIME_MIN && end == TIME_MAX, "win.indefinite window");
		CANARY_N1 ("window indefinite");
	}
}

void h_pty_validity_window (void)
{
	DECL_INPUTS (in_c14, in);
	time_t begin = 11, end = 7;
	vbi_bool r;

	setup (&in);
	r = vbi_pty_validity_window (&begin, &end, in.start, g_tz);
	check_env_restored (&in);
	if (r) {
		OBL (begin == in.start, "pty.window begins at the last transmission");
		if (g_tz != NULL && 0 == strcmp (g_tz, "UTC")) {
			OBL (end > begin && end - begin <= (4 * 7 * 24 + 28) * 3600
			     && end - begin > (4 * 7 * 24 + 3) * 3600, "pty.four weeks, until 04:00");
		} else {
			OBL (gl.n_mktime == 1 && end == gl.mk[0].ret && gl.mk[0].tm.tm_hour == 4 && gl.mk[0].tm.tm_min == 0
			     && gl.mk[0].tm.tm_mday == gl.lt.tm.tm_mday + 29, "pty.ends 04:00 four weeks and a day later");
		}
		CANARY ("pty ok");
	} else
		CANARY ("pty failed");
}
