/* C05 (T-C) and the structural clauses of C04 -- vbi3_raw_decoder_decode /
 * decode_pattern of src/raw_decoder.c, the real code, with the bit slicer
 * replaced by its contract:
 *
 *   vbi3_bit_slicer_slice (bs, buffer, buffer_size, raw)
 *     requires  raw[0 .. bytes_per_line) readable      (T-A/T-B: the slicer
 *               reads at most samples_per_line * bytes_per_sample bytes)
 *     requires  buffer[0 .. buffer_size) writable, buffer_size == 56
 *     assigns   buffer[0 .. buffer_size)
 *
 * The contract is written as a checking stub (assertions on the caller's
 * arguments, havoc of the buffer) because the callee lives in another
 * translation unit.  Obligations: every line pointer handed to the slicer
 * lies inside the (count[0]+count[1]) x bytes_per_line image; at most
 * max_lines records are written, records [0, n) only; ids and line numbers
 * as C04 states them.
 *
 * BOUNDED stand-in: at most MAX_LINES scan lines (symbolic bytes_per_line,
 * interlacing, field counts, pattern contents, max_lines).
 */
#include "shim/verif.h"
#include "src/raw_decoder.c"

_vbi_log_hook _vbi_global_log;
void _vbi_log_printf (vbi_log_fn *log_fn, void *user_data, vbi_log_mask level,
		      const char *source_file, const char *context, const char *templ, ...)
{
}

#ifndef MAX_LINES
#define MAX_LINES 3
#endif
#define MAX_BPL 64

struct in_rd {
	vbi3_raw_decoder rd;
	int8_t pattern[MAX_LINES * _VBI3_RAW_DECODER_MAX_WAYS];
	unsigned int max_lines;
	uint8_t image[MAX_LINES * MAX_BPL];
	uint8_t slice_ret[MAX_LINES * _VBI3_RAW_DECODER_MAX_WAYS];
	uint8_t slice_data[MAX_LINES * _VBI3_RAW_DECODER_MAX_WAYS];
};

static const uint8_t *g_image;
static size_t g_image_size, g_line_bytes;
static vbi_sliced *g_sliced;
static unsigned int g_max_lines;
static unsigned int g_calls, g_bad_raw, g_bad_buf;
static const uint8_t *g_ret, *g_data;
static size_t g_last_off;
static int g_monotone = 1;

static vbi_bool
slicer_contract (uint8_t *buffer, unsigned int buffer_size, const uint8_t *raw)
{
	size_t off = (size_t)(raw - g_image);
	unsigned int k;

	/* requires: one whole line readable inside the image */
	if (!(raw >= g_image && off <= g_image_size && g_line_bytes <= g_image_size - off))
		++g_bad_raw;
	OBL (raw >= g_image && off <= g_image_size && g_line_bytes <= g_image_size - off,
	     "rd.T-C line pointer handed to the bit slicer lies inside the raw image");
	/* requires: output is the data field of one of the first max_lines records */
	OBL (buffer_size == sizeof (g_sliced[0].data), "rd.slicer output size is the 56 byte data field");
	{
		size_t boff = (size_t)(buffer - (uint8_t *) g_sliced);
		if (!((uint8_t *) g_sliced <= buffer && boff / sizeof (vbi_sliced) < g_max_lines))
			++g_bad_buf;
		OBL ((uint8_t *) g_sliced <= buffer && boff / sizeof (vbi_sliced) < g_max_lines
		     && boff % sizeof (vbi_sliced) == offsetof (vbi_sliced, data),
		     "rd.slicer output lies in one of the permitted sliced records");
	}
	/* assigns buffer[0 .. buffer_size) */
	buffer[0] = g_data[g_calls % (MAX_LINES * _VBI3_RAW_DECODER_MAX_WAYS)];
	buffer[buffer_size - 1] = 0xA5;
	return g_ret[g_calls++ % (MAX_LINES * _VBI3_RAW_DECODER_MAX_WAYS)] & 1;
}

vbi_bool
vbi3_bit_slicer_slice (vbi3_bit_slicer *bs, uint8_t *buffer, unsigned int buffer_size,
		       const uint8_t *raw)
{
	return slicer_contract (buffer, buffer_size, raw);
}

vbi_bool
vbi3_bit_slicer_slice_with_points (vbi3_bit_slicer *bs, uint8_t *buffer, unsigned int buffer_size,
				   vbi3_bit_slicer_point *points, unsigned int *n_points,
				   unsigned int max_points, const uint8_t *raw)
{
	*n_points = 0;
	return slicer_contract (buffer, buffer_size, raw);
}

/* the functions of bit_slicer.c / sampling_par.c that raw_decoder.c links to but
   vbi3_raw_decoder_decode never calls */
vbi_bool vbi3_bit_slicer_set_params (vbi3_bit_slicer *bs, vbi_pixfmt sample_format, unsigned int sampling_rate, unsigned int sample_offset, unsigned int samples_per_line, unsigned int cri, unsigned int cri_mask, unsigned int cri_bits, unsigned int cri_rate, unsigned int cri_end, unsigned int frc, unsigned int frc_bits, unsigned int payload_bits, unsigned int payload_rate, vbi3_modulation modulation) { return 0; }

void h_rd_decode (void)
{
	DECL_INPUTS (in_rd, in);
	static vbi3_raw_decoder rd;
	static vbi_sliced sliced[MAX_LINES + 1];
	unsigned int scan_lines, n, k, bpl;
	vbi_sampling_par *sp;

	rd = in.rd;
	sp = &rd.sampling;
	rd.pattern = in.pattern;
	rd.sp_lines = NULL;
	rd.log.fn = NULL; rd.log.mask = 0;
	/* _vbi_sampling_par_valid_log: */
	ASSUME (sp->count[0] >= 0 && sp->count[1] >= 0);
	scan_lines = sp->count[0] + sp->count[1];
	ASSUME (scan_lines >= 1 && scan_lines <= MAX_LINES);
	ASSUME (sp->interlaced == 0 || (sp->interlaced == 1 && sp->count[0] == sp->count[1]));
	bpl = sp->bytes_per_line;
	ASSUME (bpl >= 1 && bpl <= MAX_BPL);
	ASSUME (sp->start[0] >= 0 && sp->start[0] <= 1000 && sp->start[1] >= 0 && sp->start[1] <= 1000);
	/* representation invariant of the pattern table (add_job_to_pattern,
	   remove_job_from_pattern, decode_pattern): entries name existing jobs,
	   the last entry of a row is the blank counter */
	ASSUME (rd.n_jobs <= _VBI3_RAW_DECODER_MAX_JOBS);
	for (k = 0; k < MAX_LINES * _VBI3_RAW_DECODER_MAX_WAYS; ++k) {
		ASSUME (in.pattern[k] <= (int) rd.n_jobs);
		if (k % _VBI3_RAW_DECODER_MAX_WAYS == _VBI3_RAW_DECODER_MAX_WAYS - 1)
			ASSUME (in.pattern[k] <= 0);
	}
	ASSUME (rd.readjust >= 0 && rd.readjust <= 15);
	ASSUME (in.max_lines <= MAX_LINES);

	/* the image: exactly (count[0]+count[1]) * bytes_per_line bytes */
	g_image_size = (size_t) scan_lines * bpl;
	g_line_bytes = bpl;
	g_image = in.image;	/* the first g_image_size bytes of it are the image */
	g_sliced = sliced;
	g_max_lines = in.max_lines;
	g_ret = in.slice_ret; g_data = in.slice_data;
	for (k = 0; k <= MAX_LINES; ++k) {
		sliced[k].id = 0xDEAD0000u + k; sliced[k].line = 0xBEEF0000u + k;
	}

	n = vbi3_raw_decoder_decode (&rd, sliced, in.max_lines, g_image);

	OBL (n <= in.max_lines, "rd.at most max_lines records reported");
	OBL (n <= scan_lines, "rd.at most one record per scan line");
	for (k = 0; k <= MAX_LINES; ++k) {
		if (k >= n) {
			OBL (sliced[k].id == 0xDEAD0000u + k && sliced[k].line == 0xBEEF0000u + k,
			     "rd.id and line of records beyond the reported count untouched");
		} else {
			unsigned int j, ok = 0;
			for (j = 0; j < _VBI3_RAW_DECODER_MAX_JOBS; ++j)
				if (j < rd.n_jobs && sliced[k].id == rd.jobs[j].id)
					ok = 1;
			OBL (ok, "rd.record id is the id of a configured job");
			if (!sp->synchronous)
				OBL (sliced[k].line == 0, "rd.line 0 when field order unknown");
			if (k > 0 && sliced[k].line != 0 && sliced[k - 1].line != 0 && sp->start[0] != 0
			    && sp->start[1] > sp->start[0] + sp->count[0])
				OBL (sliced[k].line > sliced[k - 1].line, "rd.line numbers ascending");
		}
	}
	if (rd.services == 0)
		OBL (n == 0 && g_calls == 0, "rd.no services, no output");
	if (n > 0) CANARY ("rd decoded a line");
	if (n == 0 && g_calls > 0) CANARY ("rd blank");
	if (sp->interlaced && n == scan_lines && scan_lines > 1) CANARY ("rd interlaced full");
}
