/* C13 (and C01) -- vbi_decode_wss_625() of src/wss.c, the real code:
 * announcement only after repeats with valid parity, only on change, with
 * exactly the transmitted values.  vbi_send_event is a ghost recorder. */
#include "contracts/wss.h"
#include "src/wss.c"

static vbi_decoder vbi;
static int ev_n, ev_aspect_n, ev_prog_n;
static vbi_aspect_ratio ev_aspect;
static const vbi_program_info *ev_pi;

void
vbi_send_event (vbi_decoder *v, vbi_event *ev)
{
	++ev_n;
	if (ev->type == VBI_EVENT_ASPECT) { ++ev_aspect_n; ev_aspect = ev->ev.aspect; }
	else if (ev->type == VBI_EVENT_PROG_INFO) { ++ev_prog_n; ev_pi = ev->ev.prog_info; }
}

struct in_wss {
	uint8_t buf[2], last[2];
	int rep_ct;
	double time, wss_time;
	vbi_aspect_ratio old;
};

#define ASPECT_IS(r, a) ((r).first_line == (a).first_line && (r).last_line == (a).last_line \
	&& (r).ratio == ((a).anamorphic ? 3.0 / 4.0 : 1.0) && (r).film_mode == (a).film \
	&& (int) (r).open_subtitles == (a).subt)

void h_wss (void)
{
	DECL_INPUTS (in_wss, in);
	struct spec_aspect a;
	uint8_t buf[2];
	int same, changed;

	buf[0] = in.buf[0]; buf[1] = in.buf[1];
	vbi.wss_last[0] = in.last[0]; vbi.wss_last[1] = in.last[1];
	vbi.wss_rep_ct = in.rep_ct; vbi.wss_time = in.wss_time;
	vbi.prog_info[0].aspect = in.old;
	ASSUME (in.rep_ct >= 0 && in.rep_ct < 1000000);
	ASSUME (in.time == in.time && in.wss_time == in.wss_time);	/* not NaN */
	ev_n = ev_aspect_n = ev_prog_n = 0;

	vbi_decode_wss_625 (&vbi, buf, in.time);

	OBL (buf[0] == in.buf[0] && buf[1] == in.buf[1], "wss.input not modified");
	if (in.time < in.wss_time) {
		OBL (ev_n == 0 && vbi.wss_rep_ct == in.rep_ct && vbi.wss_last[0] == in.last[0]
		     && vbi.wss_last[1] == in.last[1] && vbi.wss_time == in.wss_time,
		     "wss.word from the slower producer is ignored");
		return;
	}
	same = in.buf[0] == in.last[0] && in.buf[1] == in.last[1];
	spec_wss_decode (&a, in.buf[0], in.buf[1]);
	changed = !ASPECT_IS (in.old, a) || in.old.open_subtitles > 3;
	if (!same) {
		OBL (ev_n == 0, "wss.a word differing from the previous one announces nothing");
		OBL (vbi.wss_rep_ct == 0 && vbi.wss_last[0] == in.buf[0] && vbi.wss_last[1] == in.buf[1],
		     "wss.a differing word restarts the repeat count");
		CANARY ("wss differing");
		return;
	}
	OBL (vbi.wss_rep_ct == in.rep_ct + 1, "wss.repeat counted");
	OBL (vbi.wss_last[0] == in.last[0] && vbi.wss_last[1] == in.last[1], "wss.reference word kept");
	if (ev_n > 0) {
		OBL (in.rep_ct >= 2, "wss.announced only after three identical repeats");
		OBL (spec_wss_parity_ok (in.buf[0]), "wss.announced only with valid parity");
		OBL (ev_aspect_n == 1 && ev_prog_n == 1 && ev_n == 2, "wss.one aspect and one programme info event");
		OBL (ASPECT_IS (ev_aspect, a), "wss.event carries the transmitted format (EN 300 294)");
		OBL (ASPECT_IS (vbi.prog_info[0].aspect, a) && ev_pi == &vbi.prog_info[0], "wss.programme info updated to the transmitted format");
		CANARY ("wss announced");
	}
	if (in.rep_ct >= 2 && spec_wss_parity_ok (in.buf[0]) && !ASPECT_IS (in.old, a))
		OBL (ev_aspect_n == 1, "wss.a confirmed new format is announced");
	if (ASPECT_IS (in.old, a) && in.old.open_subtitles <= 3)
		CANARY ("wss same format");
	CANARY ("wss end");
}
