/* C11 -- event handler list of src/vbi.c, the real vbi_send_event and
 * vbi_event_handler_register (BOUNDED: at most 3 registered handlers, one
 * level of callback nesting).  vbi_event_enable (which resets sub-decoders
 * according to the union of the masks) is replaced by a ghost recorder of the
 * mask it is given.
 *
 *  h_register   registration, mask change and removal outside delivery: the
 *               list afterwards is the specification list (same records in
 *               order, mask replaced, record removed and freed, new record
 *               appended), and vbi_event_enable receives exactly the union of
 *               the remaining masks (Teletext acquisition follows the masks)
 *  h_send       delivery with a callback that removes itself or another
 *               handler: every handler registered for the type and not removed
 *               before its turn is called exactly once, in order, with its own
 *               user pointer; no freed record is touched (CBMC pointer checks)
 */
#include "shim/verif.h"
#include "src/vbi.h"

static int g_enable_mask = -1, g_enable_calls;
#ifdef REPLACE_ENABLE
void vbi_event_enable (vbi_decoder *vbi, int mask)
CONTRACT (__CPROVER_requires (1) __CPROVER_assigns (g_enable_mask, g_enable_calls)
	  __CPROVER_ensures (g_enable_mask == mask && g_enable_calls == __CPROVER_old (g_enable_calls) + 1));
#endif
#include "src/vbi.c"

#define NH 3
static int g_called[NH], g_order[NH * 2], g_n;
static void *g_ud[NH];
static vbi_decoder *g_vbi;
static int g_victim = -1, g_actor = -1;	/* callback g_actor removes handler g_victim */

static void cb (vbi_event *ev, void *ud)
{
	int i = (int)(intptr_t) ud;
	if (i < 0 || i >= NH) return;
	++g_called[i]; if (g_n < NH * 2) g_order[g_n++] = i;
	if (i == g_actor && g_victim >= 0 && g_victim < NH)
		vbi_event_handler_register (g_vbi, 0, cb, (void *)(intptr_t) g_victim);
}

struct in_ev { int mask[NH]; int n; int evtype; int actor, victim; int newmask; int which; };

static vbi_decoder *mk (struct in_ev *in, struct event_handler **h)
{
	vbi_decoder *vbi = malloc (sizeof (vbi_decoder));
	int i;
	ASSUME (vbi != NULL);
	for (i = 0; i < NH; ++i) g_called[i] = 0;
	g_n = 0; g_enable_calls = 0; g_enable_mask = -1; g_actor = -1; g_victim = -1;
	ASSUME (in->n >= 0 && in->n <= NH);
	vbi->handlers = NULL; vbi->next_handler = NULL;
	for (i = NH - 1; i >= 0; --i) {
		if (i < in->n) {
			h[i] = malloc (sizeof (struct event_handler));
			ASSUME (h[i] != NULL);
			ASSUME (in->mask[i] != 0);
			h[i]->event_mask = in->mask[i]; h[i]->handler = cb; h[i]->user_data = (void *)(intptr_t) i;
			h[i]->next = vbi->handlers; vbi->handlers = h[i];
		} else h[i] = NULL;
	}
	g_vbi = vbi;
	return vbi;
}

void h_send (void)
{
	DECL_INPUTS (in_ev, in);
	struct event_handler *h[NH];
	vbi_decoder *vbi = mk (&in, h);
	vbi_event ev;
	int i;

	ASSUME (in.actor >= -1 && in.actor < in.n && in.victim >= -1 && in.victim < in.n);
	g_actor = in.actor; g_victim = in.victim;
	ev.type = in.evtype;
	vbi_send_event (vbi, &ev);
	for (i = 0; i < NH; ++i) {
		int wanted = i < in.n && (in.mask[i] & in.evtype) != 0;
		int actor_runs = in.actor >= 0 && (in.mask[in.actor] & in.evtype) != 0;
		int removed_before_turn = actor_runs && in.victim == i && in.actor < i;
		if (wanted && !removed_before_turn)
			OBL (g_called[i] == 1, "ev.a handler registered for the type and not removed before its turn is called exactly once");
		else
			OBL (g_called[i] == 0, "ev.a handler not registered for the type, or removed before its turn, is not called");
	}
	for (i = 1; i < NH * 2; ++i)
		if (i < g_n)
			OBL (g_order[i - 1] < g_order[i], "ev.handlers run in registration order");
	if (g_n > 0) CANARY ("send delivered");
	if (in.actor >= 0 && in.victim == in.actor && g_called[in.actor]) CANARY ("send self removal");
}

void h_register (void)
{
	DECL_INPUTS (in_ev, in);
	struct event_handler *h[NH], *e;
	vbi_decoder *vbi = mk (&in, h);
	int i, k, un = 0;
	vbi_bool r;

	ASSUME (in.which >= 0 && in.which < NH);
	r = vbi_event_handler_register (vbi, in.newmask, cb, (void *)(intptr_t) in.which);
	if (!r) {	/* out of memory for a new record */
		OBL (in.which >= in.n && in.newmask != 0 && g_enable_calls == 0, "reg.fails only when a new record cannot be allocated");
		CANARY ("reg no memory");
		return;
	}
	/* specification list */
	e = vbi->handlers; k = 0;
	for (i = 0; i < NH; ++i) {
		if (i >= in.n) continue;
		if (i == in.which && in.newmask == 0) continue;			/* removed */
		OBL (e == h[i], "reg.remaining handlers keep their records and order");
		if (e == NULL) return;
		OBL (e->event_mask == ((i == in.which) ? in.newmask : in.mask[i]), "reg.mask of a re-registered handler is replaced, others unchanged");
		un |= e->event_mask; e = e->next; ++k;
	}
	if (in.which >= in.n && in.newmask != 0) {
		OBL (e != NULL && e->event_mask == in.newmask && e->handler == cb && e->user_data == (void *)(intptr_t) in.which && e->next == NULL,
		     "reg.a new handler is appended at the end");
		un |= in.newmask;
		CANARY ("reg appended");
	} else
		OBL (e == NULL, "reg.no other record in the list");
	OBL (g_enable_calls == 1 && g_enable_mask == un, "reg.sub-decoders are enabled for exactly the union of the registered masks");
	if (in.which < in.n && in.newmask == 0) CANARY ("reg removed");
	if (in.which < in.n && in.newmask != 0) CANARY ("reg changed");
}
