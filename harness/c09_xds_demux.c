/* C09 / C01 -- vbi_xds_demux_feed() of src/xds_demux.c, the real code, under
 * the contract of contracts/xds.h.
 *
 * Case split (DESIGN.md 1.2): CBMC cannot carry the write through
 * &xd->subpacket[class][i] with symbolic class/i (6.7 kB aggregate), so
 *   - the slot of the packet in progress (xd->curr_sp) is a constant of the
 *     job: SEL_NULL, or SEL_CLS x SEL_IDX;
 *   - the first byte of the pair is enumerated as a constant (loop over all
 *     256 values, unwound), and for header pairs the second byte too, which
 *     makes the addressed slot a constant in every inlined call.
 * The second byte is symbolic for all non-header pairs.
 *
 * Frame: the function contract's assigns clause (enforced by goto-instrument
 * --dfcc) allows writes to xd->curr, xd->curr_sp, the slot in progress and
 * the slot addressed by a header pair -- hence every other slot ("another
 * packet") is untouched, for all of them at once.
 */
#include "contracts/xds.h"
#include "src/hamm.c"
#include "src/xds_demux.c"

struct in_xds {
	_vbi_xds_subpacket s0;	/* the slot of the packet in progress */
	_vbi_xds_subpacket n;	/* the slot a header pair addresses */
	vbi_xds_packet curr;
	uint8_t b0, b1;		/* the byte pair */
	unsigned g_k;		/* ghost: an arbitrary byte of a slot */
	int cb_ret;
};

#ifndef SEL_NULL
#  define SEL_NULL 0
#endif
#ifndef SEL_CLS
#  define SEL_CLS 0
#  define SEL_IDX 0
#endif

/* the demultiplexer under test; all slots other than the (at most two) this
   call may touch keep their initial value and are shown untouched by the
   assigns clause */
static vbi_xds_demux xd;
static _vbi_xds_subpacket s0_old, n_old;
static vbi_xds_packet curr_old;
/* ghost: the slot addressed by the pair, computed by the harness */
static int new_valid;
static unsigned new_cls, new_idx;
static unsigned g_k;

static int cb_calls, cb_ret;
static vbi_xds_packet cb_pkt;
static void *cb_ud;
static int user_cookie;

static vbi_bool
cb (vbi_xds_demux *x, const vbi_xds_packet *xp, void *ud)
{
	++cb_calls; cb_pkt = *xp; cb_ud = ud;
	return cb_ret;
}

#ifndef ZVBI_REPLAY
vbi_bool
vbi_xds_demux_feed (vbi_xds_demux *x, const uint8_t buffer[2])
__CPROVER_requires (x == &xd)
__CPROVER_assigns (xd.curr, xd.curr_sp, cb_calls, cb_pkt, cb_ud;
		   !SEL_NULL: xd.subpacket[SEL_CLS][SEL_IDX];
		   new_valid: xd.subpacket[new_cls][new_idx]);
#endif

#define S0 (&xd.subpacket[SEL_CLS][SEL_IDX])
#define SLOT_SAME(a, b) ((a)->count == (b)->count && (a)->checksum == (b)->checksum \
			 && (a)->buffer[g_k] == (b)->buffer[g_k])

static void
run_case (unsigned b0, unsigned b1)
{
	uint8_t buf[2];
	int c1 = spec_unpar8 (b0), c2 = spec_unpar8 (b1);
	vbi_bool r;

	buf[0] = b0; buf[1] = b1;
	cb_calls = 0;

	r = vbi_xds_demux_feed (&xd, buf);

	/* representation invariant is preserved */
	if (!SEL_NULL)
		OBL (WF_XDS_SLOT ((int) S0->count), "xds.wf: slot count stays 0 or 2..34");
	if (new_valid)
		OBL (WF_XDS_SLOT ((int) xd.subpacket[new_cls][new_idx].count), "xds.wf: addressed slot count stays 0 or 2..34");
	OBL (xd.curr_sp == NULL || xd.curr_sp->count >= 2, "xds.wf: a packet in progress has a start");
	OBL (xd.curr_sp == NULL
	     || (xd.curr.xds_class < XDS_SPEC_CLASSES && spec_xds_idx (xd.curr.xds_subclass) >= 0
		 && xd.curr_sp == &xd.subpacket[xd.curr.xds_class][spec_xds_idx (xd.curr.xds_subclass)]),
	     "xds.wf: recorded class and type name the slot in progress");

	if (c1 < 0 || c2 < 0) {
		OBL (!r, "xds.parity error reported");
		OBL (cb_calls == 0, "xds.parity error: nothing delivered");
		OBL (xd.curr_sp == NULL, "xds.parity error: packet in progress abandoned");
		if (!SEL_NULL)
			OBL (S0->count == 0, "xds.parity error: packet in progress discarded");
		return;
	}
	if (c1 == 0x00) {
		OBL (r && cb_calls == 0, "xds.filler delivers nothing");
		OBL (SEL_NULL ? xd.curr_sp == NULL : (xd.curr_sp == S0 && SLOT_SAME (S0, &s0_old)),
		     "xds.filler changes nothing");
	} else if (SPEC_XDS_IS_HEADER (c1)) {
		unsigned cls = SPEC_XDS_CLASS (c1);
		int idx = spec_xds_idx ((unsigned) c2);
		OBL (r && cb_calls == 0, "xds.header delivers nothing");
		/* classes the demultiplexer must deliver: current, future, channel,
		   misc.  Public service / reserved / private packets (classes 4-6)
		   have storage but this code base ignores them: the contract allows
		   either treatment for them, nothing else. */
		int must = cls < XDS_SPEC_REQUIRED_CLASSES && idx >= 0;
		int may = cls < XDS_SPEC_CLASSES && idx >= 0;
		_vbi_xds_subpacket *n = may ? &xd.subpacket[cls][idx] : NULL;
		int as_supported = may
			&& ((c1 & 1) ? (xd.curr_sp == n && n->count == 2
					&& n->checksum == (unsigned) (c1 + c2))
			    : (n_old.count == 0) ? (xd.curr_sp == NULL && n->count == 0)
			    : (xd.curr_sp == n && SLOT_SAME (n, &n_old)))
			&& (xd.curr_sp == NULL
			    || (xd.curr.xds_class == cls && xd.curr.xds_subclass == (unsigned) c2))
			&& (SEL_NULL || (cls == SEL_CLS && (unsigned) idx == SEL_IDX)
			    || SLOT_SAME (S0, &s0_old));
		int as_unsupported = xd.curr_sp == NULL
			&& (SEL_NULL || S0->count == 0 || SLOT_SAME (S0, &s0_old))
			&& (!may || (!SEL_NULL && cls == SEL_CLS && (unsigned) idx == SEL_IDX)
			    || SLOT_SAME (n, &n_old));
		OBL (r && cb_calls == 0, "xds.header delivers nothing");
		if (must) {
			if (c1 & 1) {
				OBL (xd.curr_sp == n, "xds.start selects the packet's slot");
				OBL (n->count == 2 && n->checksum == (unsigned) (c1 + c2),
				     "xds.start resets length and checksum");
			} else if (n_old.count == 0) {
				OBL (xd.curr_sp == NULL && n->count == 0,
				     "xds.continue without start is ignored");
			} else {
				OBL (xd.curr_sp == n && SLOT_SAME (n, &n_old),
				     "xds.continue resumes the packet unchanged");
			}
			if (xd.curr_sp != NULL)
				OBL (xd.curr.xds_class == cls && xd.curr.xds_subclass == (unsigned) c2,
				     "xds.header records class and type of the packet");
			if (!SEL_NULL && !(cls == SEL_CLS && (unsigned) idx == SEL_IDX))
				OBL (SLOT_SAME (S0, &s0_old), "xds.header: an interrupted packet is kept intact");
			OBL (as_supported, "xds.header of a required class is handled");
		} else if (may) {
			OBL (as_supported || as_unsupported,
			     "xds.header of an optional class (4-6) is either handled or ignored whole");
		} else {
			OBL (as_unsupported, "xds.unsupported header selects nothing, keeps or drops the interrupted packet whole");
		}
	} else if (c1 == 0x0F) {
		if (SEL_NULL) {
			OBL (r && cb_calls == 0 && xd.curr_sp == NULL, "xds.end without packet ignored");
		} else {
			int deliver = (0 == ((s0_old.checksum + 0x0Fu + (unsigned) c2) & 0x7Fu))
				&& s0_old.count > 2;
			OBL (cb_calls == (deliver ? 1 : 0), "xds.delivered iff checksum is valid and payload non-empty, once");
			if (deliver) {
				OBL (cb_pkt.xds_class == curr_old.xds_class
				     && cb_pkt.xds_subclass == curr_old.xds_subclass,
				     "xds.delivered with class and type of its start pair");
				OBL (cb_pkt.buffer_size == s0_old.count - 2
				     && cb_pkt.buffer_size >= 1 && cb_pkt.buffer_size <= XDS_SPEC_MAX_PAYLOAD,
				     "xds.delivered length is the number of payload bytes, 1..32");
				OBL (g_k >= cb_pkt.buffer_size || cb_pkt.buffer[g_k] == s0_old.buffer[g_k],
				     "xds.delivered bytes are the accumulated bytes");
				OBL (cb_ud == &user_cookie, "xds.callback gets the user pointer");
				OBL (r == cb_ret, "xds.feed returns the callback's result");
			} else {
				OBL (r, "xds.rejected packet is not an error of feed");
			}
			OBL (S0->count == 0 && xd.curr_sp == NULL, "xds.packet slot is empty after its end pair (exactly once)");
		}
	} else if (c1 <= 0x1F) {
		OBL (r && cb_calls == 0 && xd.curr_sp == NULL, "xds.caption pair suspends the packet");
		if (!SEL_NULL)
			OBL (SLOT_SAME (S0, &s0_old), "xds.caption pair: suspended packet kept intact");
	} else {
		OBL (r && cb_calls == 0, "xds.contents deliver nothing");
		if (SEL_NULL) {
			OBL (xd.curr_sp == NULL, "xds.contents without packet ignored");
		} else {
			unsigned n0 = s0_old.count;
			unsigned add = 1u + (c2 != 0);
			if (n0 + add > 2u + XDS_SPEC_MAX_PAYLOAD) {
				OBL (S0->count == 0 && xd.curr_sp == NULL,
				     "xds.packet with more than 32 payload bytes discarded");
			} else {
				OBL (S0->count == n0 + add && xd.curr_sp == S0, "xds.contents: length advances by the bytes stored");
				OBL (S0->checksum == s0_old.checksum + (unsigned) (c1 + c2), "xds.contents: checksum accumulates");
				OBL (S0->buffer[n0 - 2] == c1 && (c2 == 0 || S0->buffer[n0 - 1] == c2),
				     "xds.contents: bytes appended in order");
				OBL (g_k >= n0 - 2 || S0->buffer[g_k] == s0_old.buffer[g_k],
				     "xds.contents: earlier bytes unchanged");
			}
		}
	}
}

void h_xds_feed (void)
{
	DECL_INPUTS (in_xds, in);
	unsigned b0, b1;

#if !defined (ZVBI_REPLAY) && !defined (XDS_OTHER_SLOTS_ZERO)
	{	/* every other slot: any content */
		vbi_xds_demux nondet_xds_state (void);
		xd = nondet_xds_state ();
	}
#endif
	xd.callback = cb; xd.user_data = &user_cookie; cb_ret = in.cb_ret;
	g_k = in.g_k;
	ASSUME (g_k < 32);
	xd.curr = curr_old = in.curr;
#if SEL_NULL
	xd.curr_sp = NULL;
#else
	*S0 = s0_old = in.s0;
	xd.curr_sp = S0;
	/* representation invariant (see the xds.wf obligations) */
	ASSUME (S0->count >= 2 && WF_XDS_SLOT ((int) S0->count));
	ASSUME (xd.curr.xds_class == SEL_CLS
		&& spec_xds_idx (xd.curr.xds_subclass) == SEL_IDX);
#endif
	/* every case starts from the same state and returns, so no two cases
	   share a path */
#ifndef SEL_B0_LO	/* chunk of first-byte values handled by this job */
#  define SEL_B0_LO 0
#  define SEL_B0_HI 255
#endif
	for (b0 = SEL_B0_LO; b0 <= SEL_B0_HI; ++b0) {
		if (in.b0 != b0)
			continue;
		new_valid = 0; new_cls = 0; new_idx = 0;
		if (SPEC_XDS_IS_HEADER (spec_unpar8 (b0))) {
#ifdef SEL_HEADER_C1
			if (spec_unpar8 (b0) != SEL_HEADER_C1)
				continue;
			for (b1 = 0; b1 < 256; ++b1)
				if (in.b1 == b1) {
					int i2 = spec_xds_idx (b1 & 127);
					new_cls = SPEC_XDS_CLASS (b0 & 127);
					if (spec_unpar8 (b1) >= 0 && i2 >= 0 && new_cls < XDS_SPEC_CLASSES) {
						new_valid = 1; new_idx = i2;
						if (SEL_NULL || new_cls != SEL_CLS || new_idx != SEL_IDX) {
							xd.subpacket[new_cls][new_idx] = in.n;
							ASSUME (WF_XDS_SLOT ((int) in.n.count));
						}
						n_old = xd.subpacket[new_cls][new_idx];
					}
					run_case (b0, b1);
					/* reachability witnesses for a few cases only:
					   every failing canary costs a solver call */
					if (b1 == 0x01) CANARY ("xds header type 0x01 case end");
					if (b1 == 0x40) CANARY ("xds header type 0x40 case end");
					if (b1 == 0x7F) CANARY ("xds header type 0x7F case end");
					return;
				}
#endif
		} else {
#ifndef SEL_HEADER_C1
			run_case (b0, in.b1);
			if (b0 == SEL_B0_LO) CANARY ("xds first case of the chunk reaches its end");
			if (b0 == SEL_B0_HI) CANARY ("xds last case of the chunk reaches its end");
			return;
#endif
		}
	}
}
