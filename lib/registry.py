"""registry of proof jobs.  One job = one goto-cc/goto-instrument/cbmc run.

kind: 'P' loop-free or completely unwound (unwinding assertions on) -> proof
      'L' proof with loop contracts (goto-instrument --apply-loop-contracts)
      'B' bounded stand-in (never counted as proved); 'bound' says which bound
"""
JOBS = []
GLOBAL_TRUSTED = [
    "CBMC 6.11.0 (goto-cc C front end incl. GNU extensions, dfcc contract instrumentation, "
    "bit-precise LP64 little-endian machine model, built-in MiniSat back end)",
    "CBMC's built-in models of memcpy/memmove/memset/memcmp/strlen/malloc/free",
    "specification functions and contract texts in /verif/contracts (written from the standards "
    "and the property statements) are specification, i.e. trusted",
    "induction over call histories from 'invariant established + preserved by every operation' "
    "is a paper argument (DESIGN.md 1.5), not machine-checked",
]
PROPERTY_META = {}
NOT_APPLICABLE = {
    "C01": "not claimed: no contract within CBMC's reach decides it here. The service decoder state (vbi_decoder 220 kB, struct "
           "caption 168 kB, vbi_page 9 kB of bit-field cells) stalls CBMC's symbolic execution even for put_char-sized "
           "functions (measured, DESIGN.md 8); leak freedom and bounded growth are whole-history heap properties. The input "
           "primitives it rests on are covered under C03 (Hamming/parity), C09 (XDS), C12/C13 (VPS, 8/30, WSS), C15 (IDL/PFC).",
    "C02": "not claimed: page assembly (vbi_decode_teletext on vbi_decoder, 220 kB) and Level 1 formatting "
           "(vbi_format_vt_page on vbi_page) are outside CBMC's reach in this sandbox (object sizes, DESIGN.md 8); a "
           "character-for-character comparison with an independent EN 300 706 reading over all page contents is not "
           "expressible as a per-function contract that the tool can discharge here.",
    "C04": "not applicable: bit-exact recovery of a simulated analogue waveform (io-sim.c: sin/pow in double over ~2000 samples "
           "per line, adaptive threshold) is a numerical-analysis statement, not a CBMC obligation; the structural clauses that "
           "are contract-shaped (a permitted service is accepted by the slicer set-up) are proved under C05.",
    "C08": "not claimed: caption_command / vbi_decode_caption operate on struct caption (168 kB, 18 vbi_page of bit-field cells); "
           "CBMC did not finish symbolic execution of a single command, nor of put_char on one channel, within minutes "
           "(DESIGN.md 8). A complete EIA-608 reference model over command histories is also beyond per-function contracts.",
    "C18": "multi-process scheduling/liveness property of daemon and clients (select loop, sockets): function "
           "contracts are per call and sequential; CBMC's contract instrumentation has no process/socket model",
    "C20": "data-race/deadlock/torn-read property over thread schedules: CBMC's contract instrumentation (dfcc) is "
           "single-threaded and has no ownership or happens-before logic",
}

def job(name, props, src, entry, kind="P", **kw):
    j = dict(name=name, props=props, src=src, entry=entry, kind=kind)
    j.update(kw)
    assert not any(x["name"] == name for x in JOBS), name
    JOBS.append(j)
    return j

def enforce(props, src, fn, entry=None, replace=(), **kw):
    """dfcc --enforce-contract fn; harness entry h_enforce_<suffix>"""
    return job("enforce:" + fn + kw.pop("suffix", ""), props, src, entry or ("h_enforce_" + fn),
               enforce=[fn], replace=list(replace), functions=[fn] + kw.pop("functions", []), **kw)

import jobs_c12  # noqa: E402,F401
import jobs_c03  # noqa: E402,F401
import jobs_c09  # noqa: E402,F401
import jobs_c15  # noqa: E402,F401
import jobs_c13  # noqa: E402,F401
import jobs_c05  # noqa: E402,F401
import jobs_c14  # noqa: E402,F401
import jobs_c07  # noqa: E402,F401
import jobs_c06  # noqa: E402,F401
import jobs_c19  # noqa: E402,F401
import jobs_c16  # noqa: E402,F401
import jobs_c10  # noqa: E402,F401
import jobs_c11  # noqa: E402,F401
