#!/usr/bin/env python3
"""regenerate /verif/MANIFEST.json from the job registry (lib/registry.py)"""
import json, os, sys, subprocess
VERIF = os.path.dirname(os.path.dirname(os.path.abspath(__file__)))
sys.path.insert(0, os.path.join(VERIF, "lib"))
from registry import JOBS, PROPERTY_META, NOT_APPLICABLE

props = [json.loads(l)["id"] for l in open(os.path.join(VERIF, "properties.jsonl"))]
hooks = []
try:
    out = subprocess.run(["git", "-C", "/repo", "log", "--format=%h %s"], capture_output=True, text=True).stdout
    hooks = [l.split()[0] for l in out.splitlines() if l.split(" ", 1)[1].startswith("verif:")]
except Exception:
    pass
checks, na = [], []
for p in props:
    m = PROPERTY_META.get(p)
    has = any(p in j["props"] for j in JOBS)
    if m and has and m.get("claimed", True):
        kinds = sorted({j["kind"] for j in JOBS if p in j["props"]})
        checks.append({
            "property_id": p,
            "quick_cmd": "./check %s --tier quick" % p,
            "thorough_cmd": "./check %s --tier thorough" % p,
            "evidence_file": "/verif/evidence/%s.json" % p,
            "replay_cmd_template": "./check --replay {path}",
            "engine": "cbmc-contracts",
            "level_claimed": {"category": m.get("level", "proof"), "text": m["text"],
                              "design_ref": m.get("design_ref", "DESIGN.md section 3, " + p)},
            "level_note": m["note"],
            "technique": m.get("technique", "CBMC function contracts (dfcc) on the real C code"),
        })
    else:
        na.append({"property_id": p, "reason": NOT_APPLICABLE.get(p, "no contract-based check built for this property yet; not claimed")})
man = {
    "version": 1,
    "setup_cmd": "true",
    "hooks": {"guard": "ZAPPING_VBI_ZVBI_VERIF",
              "enable": "checks compile the real /repo/src/*.c with goto-cc -DZAPPING_VBI_ZVBI_VERIF; "
                        "loop contracts are ZVBI_LOOP_CONTRACT(...) / ZVBI_GHOST(...) lines that expand to nothing without the guard (the opening brace of an annotated loop moves to its own line; token stream with the guard off is unchanged)",
              "baseline_off_cmd": "cd /repo && make -j8 >/dev/null && make check",
              "source_commits": hooks, "add_only": False},
    "engines": [{"name": "cbmc-contracts", "path": "/verif/check",
                 "serves_properties": [c["property_id"] for c in checks],
                 "kind_free_text": "CBMC 6.11 function and loop contracts (goto-instrument --dfcc) enforced on the "
                                   "real translation units of /repo, lemma harnesses over those contracts, exhaustive "
                                   "case splits, native ASan/UBSan replay of counterexamples"}],
    "checks": checks,
    "not_applicable": na,
    "notes": "Approach, per-property decisions, trusted base and findings: /verif/DESIGN.md. "
             "known_findings.txt lists recorded findings and fixed: entries.",
}
json.dump(man, open(os.path.join(VERIF, "MANIFEST.json"), "w"), indent=1)
print("MANIFEST: %d checks, %d not_applicable" % (len(checks), len(na)))
