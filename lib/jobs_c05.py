from registry import job, PROPERTY_META
P = ["C05"]
H = "harness/c05_bs.c"
# C05 is about memory: the adaptive threshold arithmetic (signed products of an arbitrary
# threshold state) is outside this property and is not checked here
MEM = ["--no-standard-checks", "--bounds-check", "--pointer-check", "--pointer-overflow-check", "--div-by-zero-check", "--undefined-shift-check"]
NROWS = 18                      # rows of _vbi_service_table (row NROWS is the terminator: job table_end)
FMTS = list(range(1, 6)) + list(range(32, 50))     # every vbi_pixfmt enumerator the slicer implements
QUICK_FMTS = [1, 4, 33, 38, 36]  # Y8, UYVY (skip 1), RGBA32_BE (skip 2, 4 bytes), RGB16_LE (2 byte green), RGB24
AS = ["_vbi_log_printf stubbed (logging has no effect on program state)"]

# T-B: set_params accepted => wf_bs, per service table row x pixel format
for row in range(NROWS):
    for fmt in FMTS:
        job("setparams[row=%d,fmt=%d]" % (row, fmt), P, H, "h_setparams", defs=["SEL_ROW=%d" % row, "SEL_FMT=%d" % fmt],
            unwind=5, solver="kissat", timeout=300, tier="quick" if fmt in QUICK_FMTS else "thorough",
            functions=["vbi3_bit_slicer_set_params"], assumed=AS,
            selector="service table row x pixel format (sampling rate, offset, samples per line, cri_end symbolic)")
job("setparams[table_end]", P, H, "h_table_end", unwind=30, functions=[], assumed=AS)
job("setparams[other fmt]", P, H, "h_setparams_other_fmt", unwind=5, functions=["vbi3_bit_slicer_set_params"], assumed=AS)

# T-B': a service accepted by _vbi_sampling_par_permit_service is accepted by set_params
for row in range(NROWS):
    if row in (10, 17):     # blank VBI pseudo services: never configured by add_services (obligation in setparams[table_end])
        continue
    for fmt in QUICK_FMTS:
        job("permit[row=%d,fmt=%d]" % (row, fmt), P + ["C04"], H, "h_permit", defs=["SEL_ROW=%d" % row, "SEL_FMT=%d" % fmt],
            unwind=5, solver="kissat", timeout=900,
            tier="quick" if (row in (2, 9, 13) and fmt == 1) else "thorough",
            functions=["_vbi_sampling_par_permit_service", "_vbi_sampling_par_valid_log", "vbi3_bit_slicer_set_params"],
            assumed=AS + ["the argument expressions of the set_params call in vbi3_raw_decoder_add_services are transcribed in the harness (h_permit)"])

# T-A (bounded stand-in): slicer functions under wf_bs stay inside raw[0 .. spl*bps) and the payload buffer
SLICERS = [("bit_slicer_Y8", 1, 0, 1), ("bit_slicer_YUYV", 2, 0, 1), ("bit_slicer_RGB24_LE", 3, 0, 1),
           ("bit_slicer_RGBA24_LE", 4, 0, 1), ("bit_slicer_RGB16_LE", 2, 0, 2), ("bit_slicer_RGB16_BE", 2, 0, 2),
           ("low_pass_bit_slicer_Y8", 1, 1, 1), ("low_pass_bit_slicer_Y8", 2, 1, 1), ("low_pass_bit_slicer_Y8", 4, 1, 1)]
QS = {("bit_slicer_Y8", 1, 3), ("bit_slicer_Y8", 1, 1), ("low_pass_bit_slicer_Y8", 1, 1), ("low_pass_bit_slicer_Y8", 2, 2),
      ("bit_slicer_RGB16_LE", 2, 3), ("bit_slicer_RGBA24_LE", 4, 0), ("bit_slicer_RGB16_BE", 2, 2), ("bit_slicer_YUYV", 2, 0),
      ("bit_slicer_RGB24_LE", 3, 1)}
for fn, bps, lp, gw in SLICERS:
    for endian in range(4):
        frc, payload = (1, 3) if endian >= 2 else (0, 1)
        job("slice[%s,bps=%d,endian=%d]" % (fn, bps, endian), P, H, "h_slice", kind="B",
            defs=["SEL_FUNC=" + fn, "SEL_BPS=%d" % bps, "SEL_LOWPASS=%d" % lp, "SEL_GW=%d" % gw,
                  "SEL_FRC=%d" % frc, "SEL_PAYLOAD=%d" % payload, "SEL_ENDIAN=%d" % endian, "SEL_CRI=2", "MAX_SPL=40"],
            unwind=20, solver="kissat", timeout=600, check_flags=MEM,
            tier="quick" if (fn, bps, endian) in QS else "thorough",
            bound="cri_samples = 2 search positions (any offset), samples_per_line = 40, %d FRC + %d payload %s; "
                  "the read pattern of a search position does not depend on the position (DESIGN.md C05)"
                  % (frc, payload, "bits" if endian >= 2 else "byte"),
            functions=[fn, "vbi3_bit_slicer_slice"], assumed=AS)

# legacy interface (src/decoder.c)
L = "harness/c05_legacy.c"
LFMT = {"YUV420": 1, "UYVY": 4, "RGBA32_BE": 33, "RGB24": 36, "RGB16_LE": 38, "BGRA15_BE": 45}
for row in range(NROWS):
    for name, fmt in LFMT.items():
        job("legacy_init[row=%d,fmt=%s]" % (row, name), P, L, "h_legacy_init", defs=["SEL_ROW=%d" % row, "SEL_FMT=VBI_PIXFMT_" + name],
            unwind=5, solver="kissat", timeout=300, tier="quick" if name in ("YUV420", "RGB16_LE") else "thorough",
            check_flags=[f for f in MEM if f != "--undefined-shift-check"],   # decoder.c:348 shifts a zero by 32 when frc_bits == 0: not a C05 matter (DESIGN.md 8)
            functions=["vbi_bit_slicer_init"], assumed=AS)
for name, bpp in (("YUV420", 1), ("UYVY", 2), ("RGB24", 3), ("RGBA32_BE", 4), ("RGB16_LE", 2), ("BGRA15_BE", 2)):
    for mod in ("NRZ_LSB", "NRZ_MSB", "BIPHASE_LSB"):
        for payload in (3, 8):
            job("legacy_e2e[%s,%s,payload=%d]" % (name, mod, payload), P, L, "h_legacy_e2e", kind="B",
                defs=["SEL_FMT=VBI_PIXFMT_" + name, "E2E_BPP=%d" % bpp, "E2E_MOD=VBI_MODULATION_" + mod, "E2E_PAYLOAD=%d" % payload,
                      "E2E_SAMPLES=%d" % (24 if payload == 3 else 44)],
                unwind=(26 if payload == 3 else 46) * bpp, solver="kissat", timeout=600, check_flags=MEM,
                tier="quick" if (name in ("YUV420", "RGB16_LE") and mod != "NRZ_MSB") else "thorough",
                bound="24 resp. 44 samples per line, 12 MHz sampling, 2 CRI + 1 FRC + %d payload bits; any line content, CRI and mask" % payload,
                functions=["vbi_bit_slicer_init", "bit_slicer_tmpl", "sample", "vbi_bit_slice"], assumed=AS)

job("resize(coupling)", P, "harness/c05_resize.c", "h_resize", unwind=5, functions=["vbi_raw_decoder_resize"],
    assumed=["vbi3_raw_decoder_set_sampling_par replaced by an assumed contract taken from its body (sampling := *sp when valid, else cleared and no services)",
             "pthread_mutex_lock/unlock: no effect (sequential)"])

PROPERTY_META["C05"] = dict(
    level="proof",
    text="The clause 'the bit slicer reads no sample beyond samples_per_line' is split at the well-formedness predicate "
         "WF_BS / WF_LBS (contracts/bs.h: offset + search positions + distance of the last sampling point + interpolation "
         "neighbour / low pass window <= samples_per_line - 1, derived from the read pattern of the slicer functions). "
         "PROVED for all inputs on the real code: vbi3_bit_slicer_set_params returns TRUE only with WF_BS established and "
         "the legacy vbi_bit_slicer_init always establishes WF_LBS, for every service table row x pixel format, all sampling "
         "rates, offsets, samples per line and cri_end (including the double arithmetic of the phase computation); a service "
         "accepted by _vbi_sampling_par_permit_service is accepted by set_params (no abort in add_services); "
         "vbi_raw_decoder_resize keeps the internal decoder's geometry equal to the public sampling parameters that size the "
         "caller's image. BOUNDED, not proved: the slicer functions themselves under WF_BS (2 search positions, 40 samples, "
         "<= 8 bits; legacy: real init + slice end to end on 24/44 sample lines), CBMC pointer checks on exactly sized objects.",
    note="Trusted: CBMC + kissat/cadical; WF_BS as the reading of the slicer's read pattern; logging stubbed. NOT decided: "
         "slicer functions for unbounded search length / full payload sizes (loop contracts on the CORE() nest: dfcc symbolic "
         "execution did not finish in 15 min even with the inner loops pre-unwound) - bounded stand-in only; "
         "vbi3_raw_decoder_decode's line pointer arithmetic (harness/c05_rd.c exists, CBMC did not finish: not registered, "
         "not claimed); user-supplied slicer parameters outside the service table; samples_per_line > 32767; "
         "pixel formats PAL8/non-enumerators reach assert() in add_services.",
    technique="CBMC lemma harnesses on the real vbi3_bit_slicer_set_params / vbi_bit_slicer_init / permit_service / "
              "vbi_raw_decoder_resize (exhaustive case split on table row x pixel format, kissat), bounded unwinding "
              "stand-in for the slicer functions",
    residual=["slicer functions: bounded stand-in only (job_table kind B)",
              "vbi3_raw_decoder_decode line pointer arithmetic and record count: not decided",
              "signed overflow of the adaptive threshold arithmetic is not a C05 matter and is switched off in the slicer jobs",
              "decoder.c:348 shifts a zero by 32 when frc_bits == 0 (undefined by the letter, value-preserving on every target): not checked here"],
    explanation="proof obligations generated by CBMC from the real source; see job_table")
