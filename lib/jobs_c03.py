from registry import job, enforce, PROPERTY_META

H = "harness/c03_hamm.c"
P = ["C03", "C01"]
HF = ["vbi_ham8", "vbi_unham8", "vbi_unham16p", "vbi_ham24p", "vbi_unham24p", "vbi_par8", "vbi_unpar8",
      "vbi_par", "vbi_unpar"]
job("lemma:ham8", P, H, "h_lemma_ham8", functions=HF)
job("lemma:ham16p", P, H, "h_lemma_ham16p", functions=HF)
for e1 in range(25):   # partition of in.e1 <= 24
    job("lemma:ham24[e1=%d]" % e1, P, H, "h_lemma_ham24", unwind=25, functions=HF, defs=["SEL_E1=%d" % e1],
        solver="cadical", selector="first error bit position e1 in 0..24 (24 = none)")
job("lemma:par", P, H, "h_lemma_par", unwind=43, functions=HF)
enforce(P, H, "vbi_par", kind="L", loops=True)
enforce(P, H, "vbi_unpar", kind="L", loops=True)
