from registry import job, PROPERTY_META

X = "harness/c09_xds_demux.c"
P = ["C09", "C01"]
FLAGS = ["--object-bits", "12", "--max-field-sensitivity-array-size", "8"]
FN = ["vbi_xds_demux_feed", "vbi_unpar8"]

def slots(tier):
    reps = [None, (0, 0), (3, 5), (6, 23)]
    if tier == "quick":
        return reps
    return [s for s in [(c, i) for c in range(7) for i in range(24)] if s not in reps]

def seldefs(s):
    return ["SEL_NULL=1"] if s is None else ["SEL_CLS=%d" % s[0], "SEL_IDX=%d" % s[1]]

def selname(s):
    return "none" if s is None else "%d.%02x" % s

for tier in ("quick", "thorough"):
    for s in slots(tier):
        # pairs whose first byte is not a class header: first byte enumerated in 8 chunks of 32
        for lo in range(0, 256, 32):
            job("xds_feed[slot=%s,b0=%02x-%02x]" % (selname(s), lo, lo + 31), P, X, "h_xds_feed",
                defs=seldefs(s) + ["SEL_B0_LO=%d" % lo, "SEL_B0_HI=%d" % (lo + 31)],
                unwind=257, cbmc_flags=FLAGS, solver="cadical", tier=tier, timeout=300, functions=FN,
                selector="slot of the packet in progress x first byte of the pair (second byte symbolic)")
        # header pairs: class code c1 constant per job, type byte enumerated inside
        if tier == "quick" and s not in (None, (3, 5)):
            continue
        for c1 in range(1, 15):
            job("xds_feed[slot=%s,header c1=%02x]" % (selname(s), c1), P, X, "h_xds_feed",
                defs=seldefs(s) + ["SEL_HEADER_C1=%d" % c1],
                unwind=257, cbmc_flags=FLAGS, solver="cadical", tier=tier, timeout=300, functions=FN,
                selector="slot of the packet in progress x class code (all 256 second bytes enumerated)")
# header jobs for the two remaining representative slots go to the thorough tier
for s in [(0, 0), (6, 23)]:
    for c1 in range(1, 15):
        job("xds_feed[slot=%s,header c1=%02x]" % (selname(s), c1), P, X, "h_xds_feed",
            defs=seldefs(s) + ["SEL_HEADER_C1=%d" % c1],
            unwind=257, cbmc_flags=FLAGS, solver="cadical", tier="thorough", timeout=300, functions=FN)
